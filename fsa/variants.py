"""Armed and neutral source variants for the self-validation (see selftest.py).

Each edit replaces one exact fragment of today's source in memory.  Armed: the named rule of the named
property must report a new finding.  Neutral: no rule of the named properties may report a new one.
"""

VARIANTS: list[dict] = []


def V(name, kind, props, rule, *edits, accept_error=False):
    VARIANTS.append({
        "name": name, "kind": kind, "props": props if isinstance(props, list) else [props], "rule": rule,
        "edits": [{"module": m, "old": o, "new": n} for m, o, n in edits], "accept_error": accept_error,
    })


A, N = "armed", "neutral"

# ---------------------------------------------------------------- C14
V("c14-create-schema-without-db-check", A, "C14", "C14.a",
  ("conn", """            and self.schema
            and duck_conn.execute(
                f\"\"\"select * from information_schema.schemata
                where upper(catalog_name) = '{self.database}'\"\"\"
            ).fetchone()
            and not duck_conn.execute(""", """            and self.schema
            and not duck_conn.execute("""))
V("c14-drop-utc", A, ["C14", "C01"], None, ("conn", """        duck_conn.execute("SET GLOBAL TimeZone = 'UTC'")""", "        pass"))
V("c14-schema-set-when-db-only", A, "C14", "C14.a",
  ("conn", """            duck_conn.execute(f"SET schema='{self.database}.main'")
            self.database_set = True""", """            duck_conn.execute(f"SET schema='{self.database}.main'")
            self.database_set = True
            self.schema_set = True"""))
V("c14-no-upper-on-schema-name", A, "C14", "C14.a",
  ("conn", "self.schema = schema and schema.upper()", "self.schema = schema"))
V("c14-existence-not-case-insensitive", A, "C14", "C14.a",
  ("conn", """where upper(catalog_name) = '{self.database}' and upper(schema_name) = '{self.schema}'\"\"\"
            ).fetchone()
        ):
            duck_conn.execute(f"CREATE SCHEMA""", """where upper(catalog_name) = '{self.database}' and schema_name = '{self.schema}'\"\"\"
            ).fetchone()
        ):
            duck_conn.execute(f"CREATE SCHEMA"""))
V("c14-skip-macros", A, ["C14"], "C14.a", ("conn", "            duck_conn.execute(macros.creation_sql(self.database))\n", ""))
V("c14-forward-flag-dropped", A, "C14", "C14.b",
  ("instance", "create_schema=self.create_schema_on_connect,", "create_schema=True,"))
V("c14-memory-when-db-path", A, ["C14"], "C14.a",
  ("conn", """db_file = f"{self.db_path/self.database}.db" if self.db_path else ":memory:\"""", """db_file = ":memory:\""""))
V("c14-neutral-reorder-utc-first", N, ["C14", "C01"], None,
  ("conn", """        # create database if needed
        if (
            create_database""", """        duck_conn.execute("SET GLOBAL TimeZone = 'UTC'")
        # create database if needed
        if (
            create_database"""),
  ("conn", """        # use UTC instead of local time zone for consistent testing
        duck_conn.execute("SET GLOBAL TimeZone = 'UTC'")""", ""))
V("c14-neutral-create-schema-if-not-exists", N, "C14", None,
  ("conn", 'duck_conn.execute(f"CREATE SCHEMA {self.database}.{self.schema}")', 'duck_conn.execute(f"CREATE SCHEMA IF NOT EXISTS {self.database}.{self.schema}")'))

# ---------------------------------------------------------------- C04
V("c04-rowcount-or", A, "C04", "C04.a",
  ("cursor", "self._rowcount = self._arrow_table.num_rows if affected_count is None else affected_count",
   "self._rowcount = affected_count or self._arrow_table.num_rows"))
V("c04-swap-update-delete-templates", A, "C04", "C04.b",
  ("cursor", "result_sql = SQL_UPDATED_ROWS.substitute(count=affected_count)", "result_sql = SQL_DELETED_ROWS.substitute(count=affected_count)"))
V("c04-status-name-not-upper", A, ["C04", "C02"], None,
  ("cursor", "ident = eid.this if eid.quoted else eid.this.upper()", "ident = eid.this.lower()"))
V("c04-keycmd-no-upper", A, "C04", "C04.c",
  ("expr", 'key = f"{expression.key.upper()} {kind.upper()}"', 'key = f"{expression.key.upper()} {kind}"'))
V("c04-bookkeeping-after-status", A, ["C04", "C06"], "C0",
  ("cursor", "            result_sql = result_sql or SQL_SUCCESS\n\n        if (text_lengths", "\n        if (text_lengths"))
V("c04-count-from-wrong-place", A, "C04", None,
  ("cursor", """        elif cmd == "DELETE":
            (affected_count,) = self._duck_conn.fetchall()[0]""", """        elif cmd == "DELETE":
            affected_count = 1"""))
V("c04-neutral-early-template-var", N, ["C04", "C06"], None,
  ("cursor", """        elif cmd == "INSERT":
            (affected_count,) = self._duck_conn.fetchall()[0]
            result_sql = SQL_INSERTED_ROWS.substitute(count=affected_count)""", """        elif cmd == "INSERT":
            rows = self._duck_conn.fetchall()
            affected_count = rows[0][0]
            tmpl = SQL_INSERTED_ROWS
            result_sql = tmpl.substitute(count=affected_count)"""))

# ---------------------------------------------------------------- C06
V("c06-description-executes-on-self", A, "C06", "C06.c",
  ("cursor", """        with self._conn.cursor() as cur:
            # TODO: can we replace with self._duck_conn.description?
            expression = sqlglot.parse_one(f"DESCRIBE {self._last_sql}", read="duckdb")
            cur._execute(expression, self._last_params)  # noqa: SLF001
            return cur.fetchall()""", """        expression = sqlglot.parse_one(f"DESCRIBE {self._last_sql}", read="duckdb")
        self._execute(expression, self._last_params)
        return self.fetchall()"""))
V("c06-last-sql-always-user-sql", A, "C06", None,
  ("cursor", "self._last_sql = result_sql or sql", "self._last_sql = sql"))
V("c06-type-table-drop-varchar", A, "C06", "C06.d", ("types", '    "VARCHAR": "text",\n', ""))

# ---------------------------------------------------------------- C03
V("c03-share-instance-handle", A, ["C03", "C13"], "C03.a",
  ("instance", "                self.duck_conn.cursor(),\n                database,", "                self.duck_conn,\n                database,"))
V("c03-context-before-engine", A, ["C03", "C07"], "C03.b",
  ("cursor", """        result_sql = None

        try:
            self._log_sql(sql, params)""", """        result_sql = None
        if transformed.args.get("set_schema"):
            self._conn.schema = transformed.args.get("set_schema")
            self._conn.schema_set = True

        try:
            self._log_sql(sql, params)"""))
V("c03-guard-drops-schema-set", A, ["C03", "C07"], "C03.d",
  ("cursor", "elif no_schema and not self._conn.schema_set:", "elif no_schema and not self._conn.database_set:"))
V("c03-guard-wrong-code", A, ["C03", "C07"], "C03.d", ("cursor", "errno=90106,", "errno=90105,"))
V("c03-use-database-keeps-schema", A, "C03", "C03.c",
  ("cursor", """            self._conn.schema = None
            self._conn.schema_set = False

        elif set_schema""", """
        elif set_schema"""))
V("c03-describe-uses-wrong-schema", A, "C03", "C03.e",
  ("cursor", "lambda e: transforms.describe_table(e, self._conn.database, self._conn.schema)",
   "lambda e: transforms.describe_table(e, self._conn.database, None)"))
V("c03-neutral-extract-context-method", N, ["C03", "C07", "C04", "C06"], None,
  ("cursor", """        if set_database := transformed.args.get("set_database"):
            self._conn.database = set_database
            self._conn.database_set = True
            # duckdb now uses the database's main schema, ie: there's no current (snowflake) schema
            self._conn.schema = None
            self._conn.schema_set = False
""", """        if set_database := transformed.args.get("set_database"):
            self._use_database(set_database)
"""),
  ("cursor", """    def _log_sql(self, sql: str""", """    def _use_database(self, name: str) -> None:
        self._conn.database = name
        self._conn.database_set = True
        self._conn.schema = None
        self._conn.schema_set = False

    def _log_sql(self, sql: str"""))

# ---------------------------------------------------------------- C07
V("c07-swap-binder-catalog-codes", A, "C07", "C07.a",
  ("cursor", 'raise snowflake.connector.errors.ProgrammingError(msg=msg, errno=2043, sqlstate="02000") from None',
   'raise snowflake.connector.errors.ProgrammingError(msg=msg, errno=2003, sqlstate="42S02") from None'))
V("c07-drop-connection-handler", A, "C07", "C07",
  ("cursor", """        except duckdb.ConnectionException as e:
            raise snowflake.connector.errors.DatabaseError(msg=e.args[0], errno=250002, sqlstate="08003") from None
""", ""))
V("c07-no-sqlstate-reset", A, "C07", "C07.b", ("cursor", "            self._sqlstate = None\n\n            if os.environ", "            if os.environ"))
V("c07-swallow-transaction-errors", A, ["C07", "C13"], None,
  ("cursor", """                result_sql = SQL_SUCCESS
            else:
                raise e""", """                result_sql = SQL_SUCCESS
            else:
                result_sql = SQL_SUCCESS"""))
V("c07-variable-check-after-parse", A, ["C07"], "C07.e",
  ("cursor", """            command = self._inline_variables(command)
            command, params = self._rewrite_with_params(command, params)""", """            command, params = self._rewrite_with_params(command, params)"""))
V("c07-neutral-handlers-reordered", N, ["C07", "C13"], None,
  ("cursor", """        except duckdb.BinderException as e:
            msg = e.args[0]
            raise snowflake.connector.errors.ProgrammingError(msg=msg, errno=2043, sqlstate="02000") from None
        except duckdb.CatalogException as e:
            # minimal processing to make it look like a snowflake exception, message content may differ
            msg = cast(str, e.args[0]).split("\\n")[0]
            raise snowflake.connector.errors.ProgrammingError(msg=msg, errno=2003, sqlstate="42S02") from None
""", """        except duckdb.CatalogException as e:
            msg = cast(str, e.args[0]).split("\\n")[0]
            raise snowflake.connector.errors.ProgrammingError(msg=msg, errno=2003, sqlstate="42S02") from None
        except duckdb.BinderException as e:
            raise snowflake.connector.errors.ProgrammingError(msg=e.args[0], errno=2043, sqlstate="02000") from None
"""))

# ---------------------------------------------------------------- C05
V("c05-advance-size-minus-one", A, "C05", "C05.c",
  ("cursor", "            self._arrow_table_fetch_index += size", "            self._arrow_table_fetch_index += size - 1"))
V("c05-no-reset-index", A, "C05", "C05.a",
  ("cursor", "        self._arrow_table_fetch_index = None\n        self._rowcount = None\n\n        cmd", "        self._rowcount = None\n\n        cmd"))
V("c05-fetchall-no-none-test", A, "C05", "C05.d",
  ("cursor", """        if self._arrow_table is None:
            # mimic snowflake python connector error type
            raise TypeError("No open result set")
        return self.fetchmany(self._arrow_table.num_rows)""", """        return self.fetchmany(self._arrow_table.num_rows)"""))
V("c05-tuple-from-dict", A, "C05", "C05.b",
  ("cursor", "        return list(zip(*(c.to_pylist() for c in tslice.columns)))", "        return [tuple(d.values()) for d in tslice.to_pylist()]"))
V("c05-offset-always-zero", A, "C05", "C05.c",
  ("cursor", "slice(offset=self._arrow_table_fetch_index or 0, length=size)", "slice(offset=0, length=size)"))
V("c05-arraysize-ignored", A, "C05", "C05",
  ("cursor", "        size = self._arraysize if size is None else size", "        size = 1 if size is None else size"))
V("c05-neutral-fetchone-direct", N, "C05", None,
  ("cursor", """        result = self.fetchmany(1)
        return result[0] if result else None""", """        rows = self.fetchmany(1)
        if not rows:
            return None
        return rows[0]"""))

# ---------------------------------------------------------------- C13
V("c13-cursor-per-fake-cursor", A, "C13", "C13.b",
  ("conn", "return FakeSnowflakeCursor(conn=self, duck_conn=self._duck_conn,", "return FakeSnowflakeCursor(conn=self, duck_conn=self._duck_conn.cursor(),"))
V("c13-only-rollback-message", A, "C13", "C13.c",
  ("cursor", """            if "cannot rollback - no transaction is active" in str(
                e
            ) or "cannot commit - no transaction is active" in str(e):""", """            if "cannot rollback - no transaction is active" in str(e):"""))
V("c13-rollback-runs-commit", A, "C13", "C13.d", ("conn", 'self.cursor().execute("ROLLBACK")', 'self.cursor().execute("COMMIT")'))

# ---------------------------------------------------------------- C08
V("c08-drop-escape", A, "C08", "C08.a",
  ("cursor", "return self._converter.quote(self._converter.escape(self._converter.to_snowflake(param)))",
   "return self._converter.quote(self._converter.to_snowflake(param))"))
V("c08-swap-quote-escape", A, "C08", "C08.a",
  ("cursor", "return self._converter.quote(self._converter.escape(self._converter.to_snowflake(param)))",
   "return self._converter.escape(self._converter.quote(self._converter.to_snowflake(param)))"))
V("c08-inline-after-substitution", A, ["C08"], "C08",
  ("cursor", """            command = self._inline_variables(command)
            command, params = self._rewrite_with_params(command, params)""", """            command, params = self._rewrite_with_params(command, params)
            command = self._inline_variables(command)"""))
V("c08-read-global-paramstyle", A, "C08", None,
  ("cursor", 'if params and self._conn._paramstyle in ("pyformat", "format"):', 'if params and snowflake.connector.paramstyle in ("pyformat", "format"):'))
V("c08-qmark-drops-params", A, "C08", "C08.d", ("cursor", "        return command, params\n\n    def _inline_variables", "        return command, None\n\n    def _inline_variables"))
V("c08-executemany-break", A, "C08", "C08.e",
  ("cursor", "        for p in seqparams:\n            self.execute(command, p)", "        for p in seqparams:\n            self.execute(command, p)\n            break"))
V("c08-neutral-convert-as-method", N, "C08", None,
  ("cursor", """            def convert(param: Any) -> Any:  # noqa: ANN401
                return self._converter.quote(self._converter.escape(self._converter.to_snowflake(param)))
""", """            conv = self._converter

            def convert(param: Any) -> Any:  # noqa: ANN401
                sf = conv.to_snowflake(param)
                esc = conv.escape(sf)
                return conv.quote(esc)
"""))

# ---------------------------------------------------------------- C15
V("c15-no-boundary", A, "C15", "C15.b", ("variables", 'rf"\\${name}(?!\\w)"', 'rf"\\${name}"'))
V("c15-string-replacement", A, "C15", "C15.c", ("variables", "lambda _, v=value: v", "value"))
V("c15-case-sensitive", A, "C15", "C15.b", ("variables", ", sql, flags=re.IGNORECASE)", ", sql)"))
V("c15-class-level-store", A, "C15", "C15.a",
  ("variables", "    def __init__(self) -> None:\n        self._variables = {}", "    _variables = {}\n\n    def __init__(self) -> None:\n        pass"))
V("c15-default-dialect-value", A, "C15", "C15.g", ('variables', 'value = eq.args.get("expression").sql(dialect="snowflake")', 'value = eq.args.get("expression").sql()'))
V("c15-undefined-returns-sql", A, ["C15", "C07"], "C07.e",
  ("variables", """            raise snowflake.connector.errors.ProgrammingError(
                msg=f"Session variable '{remaining_variables.group().upper()}' does not exist"
            )""", "            pass"))
V("c15-neutral-word-boundary", N, "C15", None, ("variables", 'rf"\\${name}(?!\\w)"', 'rf"\\${name}\\b"'))
V("c15-neutral-def-replacement", N, "C15", None,
  ("variables", """            sql = re.sub(rf"\\${name}(?!\\w)", lambda _, v=value: v, sql, flags=re.IGNORECASE)""",
   """            def _value(_m, v=value):
                return v

            sql = re.sub(rf"\\${name}(?!\\w)", _value, sql, flags=re.IGNORECASE)"""))

# ---------------------------------------------------------------- C16
V("c16-also-filter-commands", A, "C16", "C16.a",
  ("conn", "if e and not isinstance(e, exp.Semicolon)  # ignore comments", "if e and not isinstance(e, (exp.Semicolon, exp.Update))"))
V("c16-shared-cursor", A, "C16", "C16.a",
  ("conn", """        cursors = [
            self.cursor(cursor_class).execute(e.sql(dialect="snowflake"))""", """        cur = self.cursor(cursor_class)
        cursors = [
            cur.execute(e.sql(dialect="snowflake"))"""))
V("c16-ignore-cursor-class", A, "C16", "C16.a",
  ("conn", 'self.cursor(cursor_class).execute(e.sql(dialect="snowflake"))', 'self.cursor().execute(e.sql(dialect="snowflake"))'))
V("c16-swallow-errors", A, "C16", "C16.a",
  ("conn", """        cursors = [
            self.cursor(cursor_class).execute(e.sql(dialect="snowflake"))
            for e in sqlglot.parse(sql_text, read="snowflake")
            if e and not isinstance(e, exp.Semicolon)  # ignore comments
        ]""", """        cursors = []
        for e in sqlglot.parse(sql_text, read="snowflake"):
            if e and not isinstance(e, exp.Semicolon):
                try:
                    cursors.append(self.cursor(cursor_class).execute(e.sql(dialect="snowflake")))
                except snowflake.connector.errors.ProgrammingError:
                    pass"""))
V("c16-duckdb-dialect", A, "C16", "C16.a", ("conn", 'e.sql(dialect="snowflake")', 'e.sql(dialect="duckdb")'))
V("c16-nop-search", A, "C16", "C16.b", ("cursor", "any(re.match(p, command, re.IGNORECASE)", "any(re.search(p, command, re.IGNORECASE)"))
V("c16-nop-case-sensitive", A, "C16", "C16.b", ("cursor", "any(re.match(p, command, re.IGNORECASE)", "any(re.match(p, command)"))
V("c16-nop-falls-through", A, "C16", "C16.b",
  ("cursor", """                self._execute(transformed, params)
                return self

            expression = parse_one""", """                self._execute(transformed, params)

            expression = parse_one"""))
V("c16-neutral-loop", N, "C16", None,
  ("conn", """        cursors = [
            self.cursor(cursor_class).execute(e.sql(dialect="snowflake"))
            for e in sqlglot.parse(sql_text, read="snowflake")
            if e and not isinstance(e, exp.Semicolon)  # ignore comments
        ]""", """        cursors = []
        for e in sqlglot.parse(sql_text, read="snowflake"):
            if not e or isinstance(e, exp.Semicolon):
                continue
            cursors.append(self.cursor(cursor_class).execute(e.sql(dialect="snowflake")))"""))

# ---------------------------------------------------------------- C20
V("c20-acquire-before-try", A, "C20", "C20.a",
  ("__init__", """    stack = contextlib.ExitStack()

    try:""", """    stack = contextlib.ExitStack()
    stack.enter_context(mock.patch("snowflake.connector.connect", side_effect=fs.connect))
    importlib.import_module("snowflake.connector.pandas_tools")

    try:"""))
V("c20-close-not-in-finally", A, "C20", "C20.a",
  ("__init__", """        yield None
    finally:
        stack.close()
        fs.duck_conn.close()""", """        yield None
    finally:
        pass
    stack.close()
    fs.duck_conn.close()"""))
V("c20-engine-not-closed", A, "C20", "C20.a", ("__init__", "        stack.close()\n        fs.duck_conn.close()", "        stack.close()"))
V("c20-guard-after-patching", A, "C20", "C20.b",
  ("__init__", '    assert not isinstance(snowflake.connector.connect, mock.MagicMock), "Snowflake connector is already patched"\n', ""))
V("c20-write-pandas-unmapped", A, "C20", "C20.c",
  ("__init__", "        snowflake.connector.pandas_tools.write_pandas: fakes.write_pandas,\n", ""))
V("c20-neutral-rename-stack", N, "C20", None,
  ("__init__", "    stack = contextlib.ExitStack()", "    exit_stack = contextlib.ExitStack()"),
  ("__init__", "            stack.enter_context(p)", "            exit_stack.enter_context(p)"),
  ("__init__", "        stack.close()", "        exit_stack.close()"))

V("c20-split-ignores-attached-value", A, "C20", "C20.e",
  ("cli", 'in_flag = "=" not in a and (a.startswith("--") or len(a) == 2)', "in_flag = True"))
V("c20-split-flag-never-lowered", A, "C20", "C20.e",
  ("cli", "        else:\n            in_flag = False\n", ""))
V("c20-neutral-split-if-else", N, "C20", None,
  ("cli", '            in_flag = "=" not in a and (a.startswith("--") or len(a) == 2)',
   '            if "=" in a:\n                in_flag = False\n            else:\n                in_flag = a.startswith("--") or len(a) == 2'))
V("c20-std-targets-module-level-extended", A, "C20", "C20.c",
  ("__init__", "@contextmanager\ndef patch(", "_STD = [\"snowflake.connector.connect\", \"snowflake.connector.pandas_tools.write_pandas\"]\n\n\n@contextmanager\ndef patch("),
  ("__init__", '    std_targets = ["snowflake.connector.connect", "snowflake.connector.pandas_tools.write_pandas"]\n', "    std_targets = _STD\n    std_targets += list([extra_targets] if isinstance(extra_targets, str) else extra_targets)\n"),
  ("__init__", "        for im in std_targets + list([extra_targets] if isinstance(extra_targets, str) else extra_targets):", "        for im in std_targets:"))
V("c20-neutral-std-targets-module-tuple", N, "C20", None,
  ("__init__", "@contextmanager\ndef patch(", "_STD = (\"snowflake.connector.connect\", \"snowflake.connector.pandas_tools.write_pandas\")\n\n\n@contextmanager\ndef patch("),
  ("__init__", '    std_targets = ["snowflake.connector.connect", "snowflake.connector.pandas_tools.write_pandas"]\n', "    std_targets = list(_STD)\n"))
V("c17-rowset-gated-by-rowcount", A, "C17", "C17.i", ("server", "        if cur._arrow_table:  # noqa: SLF001", "        if cur.rowcount:"))
V("c17-neutral-rowset-num-rows", N, "C17", None, ("server", "        if cur._arrow_table:  # noqa: SLF001", "        if cur._arrow_table is not None and cur._arrow_table.num_rows > 0:  # noqa: SLF001"))
V("c06-hugeint-unmapped", A, "C06", "C06.f", ("types", '    # sum() and count_if() of integers are 128 bit in duckdb\n    "HUGEINT": "fixed",\n', ""))
V("c01-write-pandas-half-frame", A, "C01", "C01.c3",
  ("pandas_tools", "    count = _insert_df(conn._duck_conn, df, name)  # noqa: SLF001", "    count = _insert_df(conn._duck_conn, df.iloc[: len(df) // 2], name)  # noqa: SLF001"))
V("c12-insert-columns-of-first-clause", A, "C12", "C12.f",
  ("transforms_merge", "            cols = [str(c) for c in then.this.expressions] if then.this else []", "            cols = [str(c) for c in then.this.expressions] if then.this else cols"),
  ("transforms_merge", "    statements: list[exp.Expression] = []\n", "    statements: list[exp.Expression] = []\n    cols: list[str] = []\n"))
V("c13-checkpoint-after-create-database", A, "C13", "C13.g",
  ("cursor", "            self._duck_conn.execute(macros.creation_sql(create_db_name))",
   "            self._duck_conn.execute(macros.creation_sql(create_db_name))\n            if self._conn.db_path:\n                self._duck_conn.execute(\"CHECKPOINT\")"))
V("c19-lock-only-with-create-database", A, "C19", "C19.a",
  ("instance", "        with self._connect_lock:", "        import contextlib\n        with (self._connect_lock if self.create_database_on_connect else contextlib.nullcontext()):"))

V("c10-drop-table-cascade-too", A, "C10", "C10.d",
  ("transforms", '        or kind.upper() != "SCHEMA"\n', '        or kind.upper() not in ("SCHEMA", "TABLE")\n'))
V("c10-values-columns-zero-based", A, "C10", "C10.d",
  ("transforms", 'columns = [exp.Identifier(this=f"COLUMN{i + 1}", quoted=True) for i in range(num_columns)]', 'columns = [exp.Identifier(this=f"COLUMN{i}", quoted=True) for i in range(num_columns)]'))
V("c10-cluster-by-any-action", A, "C10", "C10.d",
  ("transforms", "        and len(actions) == 1\n        and (isinstance(actions[0], exp.Cluster))", "        and any(isinstance(a, exp.Cluster) for a in actions)"))
V("c10-tag-any-alter-set", A, "C10", "C10.d",
  ("transforms", '            if isinstance(a, exp.AlterSet) and a.args.get("tag"):', "            if isinstance(a, exp.AlterSet):"))
V("c10-neutral-drop-kind-no-upper", N, ["C10", "C02"], None,
  ("transforms", '        or kind.upper() != "SCHEMA"\n', '        or kind != "SCHEMA"\n'))

V("c03-use-database-keeps-schema-name", A, "C03", "C03.c",
  ("cursor", "            # duckdb now uses the database's main schema, ie: there's no current (snowflake) schema\n            self._conn.schema = None\n",
   "            # duckdb now uses the database's main schema, ie: there's no current (snowflake) schema\n"))
V("c05-result-batches-guard-negated", A, "C05", "C05.f",
  ("cursor", "    def get_result_batches(self) -> list[ResultBatch] | None:\n        if self._arrow_table is None:", "    def get_result_batches(self) -> list[ResultBatch] | None:\n        if self._arrow_table is not None:"))
V("c18-neutral-mkdir-db-path", N, "C18", None,
  ("conn", "        self.db_path = Path(db_path) if db_path else None", "        self.db_path = Path(db_path) if db_path else None\n        if self.db_path:\n            self.db_path.mkdir(parents=True, exist_ok=True)"))
V("c15-neutral-inline-flag", N, "C15", None,
  ("variables", '            sql = re.sub(rf"\\${name}(?!\\w)", lambda _, v=value: v, sql, flags=re.IGNORECASE)', '            sql = re.sub(rf"(?i)\\${name}(?!\\w)", lambda _, v=value: v, sql)'))

V("c16-neutral-strip-script", N, "C16", None,
  ("conn", 'for e in sqlglot.parse(sql_text, read="snowflake")', 'for e in sqlglot.parse(sql_text.strip(), read="snowflake")'))
V("c16-script-semicolons-split-by-hand", A, "C16", "C16.a",
  ("conn", 'for e in sqlglot.parse(sql_text, read="snowflake")', 'for e in sqlglot.parse(sql_text.replace(";;", ";"), read="snowflake")'))

V("c20-neutral-getattr-module-var", N, "C20", None,
  ("__init__", "            fn = module.__dict__.get(fn_name)", "            fn = getattr(module, fn_name, None)"))

# ---------------------------------------------------------------- C01
V("c01-float-stays-float", A, "C01", "C01.a", ("transforms", '        expression.args["this"] = exp.DataType.Type.DOUBLE\n', '        expression.args["this"] = exp.DataType.Type.FLOAT\n'))
V("c01-drop-float-stage", A, "C01", "C01.a", ("cursor", "            .transform(transforms.float_to_double)\n", ""))
V("c01-tinyint-not-widened", A, "C01", "C01.a",
  ("transforms", "expression.this in (exp.DataType.Type.INT, exp.DataType.Type.SMALLINT, exp.DataType.Type.TINYINT)",
   "expression.this in (exp.DataType.Type.INT, exp.DataType.Type.SMALLINT)"))
V("c01-ntz-to-seconds", A, "C01", "C01.a", ("transforms", "        return exp.DataType(this=exp.DataType.Type.TIMESTAMP)\n", "        return exp.DataType(this=exp.DataType.Type.TIMESTAMP_S)\n"))
V("c01-variant-unmapped", A, "C01", "C01.a", ("transforms", "        exp.DataType.Type.OBJECT,\n        exp.DataType.Type.VARIANT,\n    ]:", "        exp.DataType.Type.OBJECT,\n    ]:"))
V("c01-pandas-unquoted-cols", A, "C01", "C01.c", ("pandas_tools", """escaped_cols = ",".join(f'"{col}"' for col in df.columns.to_list())""", """escaped_cols = ",".join(f"{col}" for col in df.columns.to_list())"""))
V("c01-pandas-no-json", A, "C01", "C01.c", ("pandas_tools", "lambda x: json.dumps(x) if isinstance(x, (dict, list)) else x", "lambda x: str(x) if isinstance(x, (dict, list)) else x"))
V("c01-pandas-count-len", A, "C01", "C01.c", ("pandas_tools", "    return duck_conn.fetchall()[0][0]", "    duck_conn.fetchall()\n    return len(df)"))
V("c01-neutral-drop-redundant-ntz-stage", N, "C01", None, ("cursor", "            .transform(transforms.timestamp_ntz)\n", ""))
V("c01-neutral-pipeline-loop", N, ["C01", "C02", "C10", "C11"], None,
  ("cursor", """            .transform(transforms.alias_in_join)
            .transform(transforms.alter_table_strip_cluster_by)
        )""", """            .transform(transforms.alias_in_join)
        ).transform(transforms.alter_table_strip_cluster_by)"""))

# ---------------------------------------------------------------- C02
V("c02-fold-not-first", A, "C02", "C02.a",
  ("cursor", """            expression.transform(transforms.upper_case_unquoted_identifiers)
            .transform(transforms.update_variables, variables=self._conn.variables)""",
   """            expression.transform(transforms.update_variables, variables=self._conn.variables)
            .transform(transforms.upper_case_unquoted_identifiers)"""))
V("c02-fold-quoted-too", A, "C02", "C02.a",
  ("transforms", "if isinstance(expression, exp.Identifier) and not expression.quoted and isinstance(expression.this, str):",
   "if isinstance(expression, exp.Identifier) and isinstance(expression.this, str):"))
V("c02-describe-kind-no-upper", A, "C02", "C02.c", ("transforms", 'and kind.upper() in ("TABLE", "VIEW")', 'and kind in ("TABLE", "VIEW")'))
V("c02-merge-delete-raw-again", A, ["C02", "C12"], None,
  ("transforms_merge", """            elif isinstance(then, exp.Var) and then.name.upper() == "DELETE":
                operations["deleted"].append(w_idx)""", """            elif isinstance(then, exp.Var) and then.name == "DELETE":
                operations["deleted"].append(w_idx)"""))
V("c02-equal-ignores-quotes", A, "C02", "C02.d", ("checks", "    lid = left.this if left.quoted else left.this.upper()", "    lid = left.this.upper()"))
V("c02-identifier-fn-ok-others-lower", A, "C02", "C02.b",
  ("transforms", 'exp.Identifier(this="_FS_COLUMNS_SNOWFLAKE", quoted=False)', 'exp.Identifier(this="_fs_columns_snowflake", quoted=False)'))
V("c02-anonymous-name-raw", A, "C02", "C02.c", ("transforms", 'and expression.this.upper() == "TO_DATE"', 'and expression.this == "TO_DATE"'))
V("c02-neutral-redundant-upper-removed", N, "C02", None, ("transforms", '        or kind.upper() != "SCHEMA"\n', '        or kind != "SCHEMA"\n'))
V("c02-neutral-casefold", N, "C02", None, ("transforms", 'and kind.upper() in ("TABLE", "VIEW")', 'and kind.casefold() in ("table", "view")'))

# ---------------------------------------------------------------- C09
V("c09-drop-fs-filter-show-tables", A, "C09", "C09.a",
  ("transforms", """exclude_fakesnow_tables = "not (table_schema == 'information_schema' and table_name like '_fs_%%')\"""",
   """exclude_fakesnow_tables = "1 = 1\""""))
V("c09-keys-filter-dropped", A, "C09", "C09.a",
  ("transforms", """                  AND database_name = '{current_database}'
                  AND table_name NOT LIKE '_fs_%'
                \"\"\"

        scope_kind""", """                  AND database_name = '{current_database}'
                \"\"\"

        scope_kind"""))
V("c09-databases-view-lists-global", A, "C09", "C09.a",
  ("info_schema", "where catalog_name not in ('memory', 'system', 'temp', '_fs_global')", "where catalog_name not in ('memory', 'system', 'temp')"))
V("c09-describe-ignores-schema", A, "C09", "C09.b",
  ("transforms", "WHERE table_catalog = '${catalog}' AND table_schema = '${schema}' AND table_name = '${table}'",
   "WHERE table_catalog = '${catalog}' AND table_name = '${table}'"))
V("c09-show-in-schema-ignores-db", A, "C09", "C09.b",
  ("transforms", """        catalog = table.db or current_database
        schema = table.name""", """        catalog = None
        schema = table.name"""))
V("c09-conflict-key-short", A, ["C09", "C18"], "C09.c",
  ("info_schema", "        ON CONFLICT (ext_table_catalog, ext_table_schema, ext_table_name)\n", "        ON CONFLICT (ext_table_schema, ext_table_name)\n"))
V("c09-values-order-swapped", A, ["C09", "C18"], "C09.c",
  ("info_schema", "values ('{catalog}', '{schema}', '{table}', '{comment}')", "values ('{schema}', '{catalog}', '{table}', '{comment}')"))
V("c09-no-quote-doubling", A, "C09", "C09.e", ("info_schema", """    comment = comment.replace("'", "''")\n""", ""))
V("c09-phantom-comment", A, "C09", "C09.f",
  ("transforms", """            if comment is not None:
                new.args["table_comment"] = (table, comment)""", """            new.args["table_comment"] = (table, comment)"""))
V("c09-side-table-in-global", A, ["C09", "C18"], "C09.c",
  ("info_schema", "        INSERT INTO {catalog}.information_schema._fs_tables_ext\n", "        INSERT INTO information_schema._fs_tables_ext\n"))
V("c09-neutral-not-equal-spelling", N, "C09", None,
  ("info_schema", "  and schema_name != 'information_schema'", "  and schema_name <> 'information_schema'"))

# ---------------------------------------------------------------- C10 / C11
V("c10-regex-substr-before-indices", A, "C10", "C10.a",
  ("cursor", "            .transform(transforms.indices_to_json_extract)\n", ""),
  ("cursor", "            .transform(transforms.regex_substr)\n", "            .transform(transforms.regex_substr)\n            .transform(transforms.indices_to_json_extract)\n"))
V("c10-array-agg-before-within-group", A, "C10", "C10.a",
  ("cursor", """            .transform(transforms.array_agg_within_group)
            .transform(transforms.array_agg)""", """            .transform(transforms.array_agg)
            .transform(transforms.array_agg_within_group)"""))
V("c10-to-date-after-dateadd", A, "C10", "C10.a",
  ("cursor", "            .transform(transforms.to_date)\n", ""),
  ("cursor", "            .transform(transforms.dateadd_date_cast)\n", "            .transform(transforms.dateadd_date_cast)\n            .transform(transforms.to_date)\n"))
V("c10-side-key-renamed-writer", A, ["C10", "C03"], None,
  ("transforms", 'this="SET", expression=exp.Literal.string(f"schema = \'{database}.main\'"), set_database=database',
   'this="SET", expression=exp.Literal.string(f"schema = \'{database}.main\'"), use_database=database'))
V("c10-create-database-no-macros", A, ["C10", "C18"], "C10.c", ("cursor", "            self._duck_conn.execute(macros.creation_sql(create_db_name))\n", ""))
V("c10-neutral-independent-reorder", N, ["C10", "C11"], None,
  ("cursor", """            .transform(transforms.sample)
            .transform(transforms.array_size)""", """            .transform(transforms.array_size)
            .transform(transforms.sample)"""))
V("c11-precedence-before-cast", A, "C11", "C11.a",
  ("cursor", """            .transform(transforms.json_extract_cast_as_varchar)
            .transform(transforms.json_extract_cased_as_varchar)
            .transform(transforms.json_extract_precedence)""", """            .transform(transforms.json_extract_precedence)
            .transform(transforms.json_extract_cast_as_varchar)
            .transform(transforms.json_extract_cased_as_varchar)"""))
V("c11-flatten-before-types", A, "C11", "C11.a",
  ("cursor", "            .transform(transforms.semi_structured_types)\n", ""),
  ("cursor", "            .transform(transforms.flatten)\n", "            .transform(transforms.flatten)\n            .transform(transforms.semi_structured_types)\n"))
V("c11-trim-after-cast", A, "C11", "C11.a",
  ("cursor", "            .transform(transforms.trim_cast_varchar)\n", ""),
  ("cursor", "            .transform(transforms.json_extract_precedence)\n", "            .transform(transforms.json_extract_precedence)\n            .transform(transforms.trim_cast_varchar)\n"))
V("c11-flatten-value-cast-after-flatten", A, "C11", "C11.a",
  ("cursor", """            .transform(transforms.flatten_value_cast_as_varchar)
            .transform(transforms.flatten)""", """            .transform(transforms.flatten)
            .transform(transforms.flatten_value_cast_as_varchar)"""))

# ---------------------------------------------------------------- C12
V("c12-counts-ladder-disagrees", A, "C12", "C12.b",
  ("transforms_merge", """            if isinstance(then, exp.Update):
                operations["updated"].append(w_idx)""", """            if isinstance(then, exp.Update):
                operations["deleted"].append(w_idx)"""))
V("c12-mutation-index-off", A, "C12", "C12.b",
  ("transforms_merge", """                    WHERE {join_expr}
                    AND {source_tbl}.merge_op = {w_idx}
                \"\"\"
                statements.append(sqlglot.parse_one(update_sql))""", """                    WHERE {join_expr}
                    AND {source_tbl}.merge_op = {w_idx + 1}
                \"\"\"
                statements.append(sqlglot.parse_one(update_sql))"""))
V("c12-insert-into-source", A, "C12", "C12.c", ("transforms_merge", "                INSERT INTO {target_tbl} {columns}\n", "                INSERT INTO {source_tbl} {columns}\n"))
V("c12-helper-not-temporary", A, "C12", "C12.d", ("transforms_merge", "    CREATE OR REPLACE TEMPORARY TABLE merge_candidates AS", "    CREATE OR REPLACE TABLE merge_candidates AS"))

# ---------------------------------------------------------------- C17
V("c17-auth-after-body", A, "C17", "C17.a",
  ("server", """        conn = to_conn(request)

        body = await request.body()
        body_json = json.loads(gzip.decompress(body))
""", """        body = await request.body()
        body_json = json.loads(gzip.decompress(body))
        conn = to_conn(request)
"""))
V("c17-status-403", A, "C17", "C17.a", ("server", 'raise ServerError(status_code=401, code="390104"', 'raise ServerError(status_code=403, code="390104"'))
V("c17-unknown-token-gets-new-session", A, "C17", "C17.a",
  ("server", """    if not (conn := sessions.get(token)):
        raise ServerError(status_code=401, code="390104", message="User must login again to access the service.")
""", """    if not (conn := sessions.get(token)):
        conn = sessions[token] = shared_fs.connect()
"""))
V("c17-one-connection-for-all", A, "C17", "C17.b", ("server", "    sessions[token] = fs.connect(database, schema)", "    sessions[token] = sessions.get('default') or fs.connect(database, schema)"))
V("c17-error-code-unpadded", A, "C17", "C17.c", ('server', 'code = f"{e.errno:06d}"', 'code = f"{e.errno}"'))
V("c17-fraction-unrounded", A, "C17", "C17.d", ("arrow", "pc.round(pc.multiply(pc.subsecond(ts), 1_000_000_000)).cast(pa.int32())", "pc.multiply(pc.subsecond(ts), 1_000_000_000).cast(pa.int32())"))

# ---------------------------------------------------------------- C18 / C19
V("c18-create-db-lowercases-file", A, "C18", "C18.a", ("transforms", 'db_file = f"{db_path/db_name}.db" if db_path else ":memory:"', 'db_file = f"{db_path/db_name.lower()}.duckdb" if db_path else ":memory:"'))
V("c18-connect-always-memory", A, ["C18", "C14"], None, ("conn", 'db_file = f"{self.db_path/self.database}.db" if self.db_path else ":memory:"', 'db_file = ":memory:"'))
V("c18-create-db-ignores-db-path", A, "C18", "C18.a", ("cursor", "            .transform(transforms.create_database, db_path=self._conn.db_path)\n", "            .transform(transforms.create_database)\n"))
V("c19-attach-outside-lock", A, "C19", "C19.a",
  ("instance", """        with self._connect_lock:
            return fakes.FakeSnowflakeConnection(""", """        with self._connect_lock:
            pass
        if True:
            return fakes.FakeSnowflakeConnection("""))
V("c19-lock-per-call", A, "C19", "C19.a", ("instance", "        with self._connect_lock:\n", "        with threading.Lock():\n"))
V("c19-mutate-success-nop", A, "C19", "C19.c",
  ("transforms", """        new = SUCCESS_NOP.copy()
        new.args["table_comment"] = (table, cexp.this)
        return new""", """        new = SUCCESS_NOP
        new.args["table_comment"] = (table, cexp.this)
        return new"""))
V("c19-module-level-cache", A, "C19", "C19.c",
  ("transforms", 'MISSING_DATABASE = "missing_database"\n', 'MISSING_DATABASE = "missing_database"\n_SEEN_DATABASES = {}\n'),
  ("transforms", "        db_name = ident.this\n", "        db_name = ident.this\n        _SEEN_DATABASES[db_name] = True\n"))
V("c19-neutral-rlock", N, "C19", None, ("instance", "self._connect_lock = threading.Lock()", "self._connect_lock = threading.RLock()"))

# ---------------------------------------------------------------- neutral refactorings (must stay silent everywhere they touch)
V("neutral-fetchmany-start-var", N, "C05", None,
  ("cursor", """        tslice = self._arrow_table.slice(offset=self._arrow_table_fetch_index or 0, length=size)

        if self._arrow_table_fetch_index is None:
            self._arrow_table_fetch_index = size
        else:
            self._arrow_table_fetch_index += size
""", """        start = self._arrow_table_fetch_index or 0
        tslice = self._arrow_table.slice(start, size)
        self._arrow_table_fetch_index = start + size
"""))
V("neutral-patch-with-exitstack", N, ["C20", "C18"], None,
  ("__init__", """    stack = contextlib.ExitStack()

    try:
        for im in""", """    try:
      with contextlib.ExitStack() as stack:
        for im in"""),
  ("__init__", """        yield None
    finally:
        stack.close()
        fs.duck_conn.close()""", """        yield None
    finally:
        fs.duck_conn.close()"""))
V("neutral-connect-helper-exists", N, ["C14", "C03", "C01", "C19", "C18"], None,
  ("conn", """        # create database if needed
        if (
            create_database
            and self.database
            and not duck_conn.execute(
                f\"\"\"select * from information_schema.schemata
                where upper(catalog_name) = '{self.database}'\"\"\"
            ).fetchone()
        ):""", """        def db_exists() -> bool:
            return bool(
                duck_conn.execute(
                    f\"\"\"select * from information_schema.schemata
                where upper(catalog_name) = '{self.database}'\"\"\"
                ).fetchone()
            )

        # create database if needed
        if create_database and self.database and not db_exists():"""))
V("neutral-status-dict-dispatch", N, ["C04", "C06"], None,
  ("cursor", """        elif cmd == "INSERT":
            (affected_count,) = self._duck_conn.fetchall()[0]
            result_sql = SQL_INSERTED_ROWS.substitute(count=affected_count)

        elif cmd == "UPDATE":
            (affected_count,) = self._duck_conn.fetchall()[0]
            result_sql = SQL_UPDATED_ROWS.substitute(count=affected_count)

        elif cmd == "DELETE":
            (affected_count,) = self._duck_conn.fetchall()[0]
            result_sql = SQL_DELETED_ROWS.substitute(count=affected_count)
""", """        elif cmd in ("INSERT", "UPDATE", "DELETE"):
            (affected_count,) = self._duck_conn.fetchall()[0]
            templates = {"INSERT": SQL_INSERTED_ROWS, "UPDATE": SQL_UPDATED_ROWS, "DELETE": SQL_DELETED_ROWS}
            result_sql = templates[cmd].substitute(count=affected_count)
"""))
V("neutral-execute-early-guard-helper", N, ["C03", "C07"], None,
  ("cursor", """        if no_database and not self._conn.database_set:
            raise snowflake.connector.errors.ProgrammingError(""", """        needs_db = no_database and not self._conn.database_set
        if needs_db:
            raise snowflake.connector.errors.ProgrammingError("""))
V("neutral-sqlstate-local", N, "C07", None,
  ("cursor", """        except snowflake.connector.errors.ProgrammingError as e:
            self._sqlstate = e.sqlstate
            raise e""", """        except snowflake.connector.errors.ProgrammingError as err:
            state = err.sqlstate
            self._sqlstate = state
            raise"""))
# (an ASCII-only continuation class is *not* neutral: `$idé` is then rewritten with the value of `id` — found by a batch-15 sub-agent)
V("c15-ascii-only-name-boundary", A, "C15", "C15.b",
  ("variables", """            sql = re.sub(rf"\\${name}(?!\\w)", lambda _, v=value: v, sql, flags=re.IGNORECASE)""",
   """            sql = re.sub(rf"\\${name}(?![A-Za-z0-9_])", lambda _, v=value: v, sql, flags=re.IGNORECASE)"""))
V("neutral-variables-word-class-boundary", N, "C15", None,
  ("variables", """            sql = re.sub(rf"\\${name}(?!\\w)", lambda _, v=value: v, sql, flags=re.IGNORECASE)""",
   """            sql = re.sub(rf"\\${name}(?![\\w])", lambda _, v=value: v, sql, flags=re.IGNORECASE)"""))
V("neutral-merge-then-name-lower", N, ["C12", "C02"], None,
  ("transforms_merge", """            if isinstance(then, exp.Var) and then.name.upper() == "DELETE":
                delete_sql""", """            if isinstance(then, exp.Var) and then.name.lower() == "delete":
                delete_sql"""))
V("neutral-server-token-helper", N, "C17", None,
  ("server", """    token = auth[17:-1]

    if not (conn := sessions.get(token)):""", """    token = auth[17:-1]
    conn = sessions.get(token)
    if conn is None:"""))

# ---------------------------------------------------------------- C10.d / C11.d operand wiring
V("c10d-precision-scale-swapped", A, "C10", "C10.d",
  ("transforms", "to=exp.DataType(this=exp.DataType.Type.DECIMAL, expressions=[precision, scale], nested=False, prefix=False),\n    )\n\n\ndef to_decimal",
   "to=exp.DataType(this=exp.DataType.Type.DECIMAL, expressions=[scale, precision], nested=False, prefix=False),\n    )\n\n\ndef to_decimal"))
V("c10d-default-precision-18", A, "C10", "C10.d",
  ("transforms", 'precision = expressions[1] if len(expressions) > 1 else exp.Literal(this="38", is_string=False)',
   'precision = expressions[1] if len(expressions) > 1 else exp.Literal(this="18", is_string=False)'))
V("c10d-try-uses-cast", A, "C10", "C10.d", ("transforms", "        return _to_decimal(expression, exp.TryCast)", "        return _to_decimal(expression, exp.Cast)"))
V("c10d-tonumber-scale-dropped", A, "C10", "C10.d",
  ("transforms", """            if arg_precision:
                _scale = arg_precision
    else:""", """            if arg_precision:
                _scale = None
    else:"""))
V("c10d-dateadd-week-not-date", A, "C10", "C10.d", ('transforms', 'unit.upper() not in {"DAY", "WEEK", "MONTH", "QUARTER", "YEAR"}', 'unit.upper() not in {"DAY", "MONTH", "QUARTER", "YEAR"}'))
V("c10d-datediff-operands-swapped", A, "C10", "C10.d",
  ("transforms", """    new_datediff.set("this", op1)
    new_datediff.set("expression", op2)""", """    new_datediff.set("this", op2)
    new_datediff.set("expression", op1)"""))
V("c10d-sha2-any-length", A, "C10", "C10.d",
  ("transforms", 'if isinstance(expression, exp.SHA2) and expression.args.get("length", exp.Literal.number(256)).this == "256":', "if isinstance(expression, exp.SHA2):"))
V("c10d-regexp-replace-not-global", A, "C10", "C10.d", ("transforms", '        expression.args["modifiers"] = exp.Literal(this="g", is_string=True)\n', ""))
V("c10d-occurrence-not-decremented", A, "C10", "C10.d", ("transforms", "occurrence = exp.Literal(this=str(occurrence - 1), is_string=False)", "occurrence = exp.Literal(this=str(occurrence), is_string=False)"))
V("c10d-position-ignored", A, "C10", "C10.d", ("transforms", 'position = expression.args["position"] or exp.Literal(this="1", is_string=False)', 'position = exp.Literal(this="1", is_string=False)'))
V("c10d-sample-system", A, "C10", "C10.d", ('transforms', 'expression.set("method", exp.Var(this="BERNOULLI"))', 'expression.set("method", exp.Var(this="SYSTEM"))'))
V("c10d-clone-selects-target", A, ["C10", "C01"], None, ("transforms", '**{"from": exp.From(this=clone.this)},', '**{"from": exp.From(this=expression.this)},'))
V("c10d-neutral-to-decimal-inline", N, "C10", None,
  ("transforms", """    precision = expressions[1] if len(expressions) > 1 else exp.Literal(this="38", is_string=False)
    scale = expressions[2] if len(expressions) > 2 else exp.Literal(this="0", is_string=False)
""", """    precision = exp.Literal(this="38", is_string=False)
    scale = exp.Literal(this="0", is_string=False)
    if len(expressions) > 1:
        precision = expressions[1]
    if len(expressions) > 2:
        scale = expressions[2]
"""))
V("c11d-object-construct-keeps-null", A, "C11", "C11.d", ("transforms", "            if left_is_null or right_is_null:\n                continue\n", "            if left_is_null:\n                continue\n"))
V("c11d-array-index-as-key", A, "C11", "C11.d", ("transforms", 'expression=exp.Literal(this=f"$[{index.this}]", is_string=True)', 'expression=exp.Literal(this=f"$.{index.this}", is_string=True)'))
V("c11d-upper-keeps-json", A, "C11", "C11.d", ('transforms', 'expression.set("this", exp.JSONExtractScalar(this=gp.this, expression=path))', 'expression.set("this", exp.JSONExtract(this=gp.this, expression=path))'))
V("c11d-cast-keeps-json", A, "C11", "C11.d", ("transforms", "        je.replace(exp.JSONExtractScalar(this=je.this, expression=path))\n", "        je.replace(exp.JSONExtract(this=je.this, expression=path))\n"))
V("c11d-flatten-loses-alias", A, "C11", "C11.d", ('transforms', 'alias=exp.TableAlias(this=alias.this, columns=[exp.Identifier(this="VALUE", quoted=False)]),', 'alias=exp.TableAlias(this=exp.Identifier(this="F", quoted=False), columns=[exp.Identifier(this="VALUE", quoted=False)]),'))
V("c11d-try-parse-json-cast", A, "C11", "C11.d", ("transforms", "        return exp.TryCast(\n            this=expressions[0],\n            to=exp.DataType(this=exp.DataType.Type.JSON, nested=False),", "        return exp.Cast(\n            this=expressions[0],\n            to=exp.DataType(this=exp.DataType.Type.JSON, nested=False),"))

# ---------------------------------------------------------------- later findings (F39-F43) re-armed
V("c06-status-recorded-with-user-params", A, ["C06", "C04"], "C06.g", ("cursor", "self._last_params = None if result_sql else params", "self._last_params = params"))
V("c06-describe-dict-rows", A, "C06", "C06.h",
  ("cursor", """        if self._use_dict_result:
            # the columns of a DESCRIBE result have distinct names, so their order is the dict order
            rows = [tuple(r.values()) for r in rows]  # pyright: ignore[reportAttributeAccessIssue]
""", ""))
V("c10-trim-drops-chars", A, ["C10", "C11"], None,
  ("transforms", """    new_trim = expression.copy()
    new_trim.set(
        "this", exp.Cast(this=operand, to=exp.DataType(this=exp.DataType.Type.VARCHAR, nested=False, prefix=False))
    )
    return new_trim""", """    return exp.Trim(
        this=exp.Cast(this=operand, to=exp.DataType(this=exp.DataType.Type.VARCHAR, nested=False, prefix=False))
    )"""))
V("c15-unset-undefined-keyerror", A, "C15", "C15.f", ("variables", "self._variables.pop(name, None)", "self._variables.pop(name)"))

# ---------------------------------------------------------------- batch 8 rules
V("c01-column-rewritten-before-insert", A, "C01", "C01.c5",
  ("pandas_tools", """    escaped_cols = ",".join(f'"{col}"' for col in df.columns.to_list())""",
   """    for col in df.select_dtypes(include=["datetimetz"]).columns:
        df[col] = df[col].dt.tz_localize(None)
    escaped_cols = ",".join(f'"{col}"' for col in df.columns.to_list())"""))
V("c12-exploded-statements-skip-pipeline", A, "C12", "C12.i",
  ("cursor", """                transformed = self._transform(exp)
                self._execute(transformed, params)""",
   """                transformed = self._transform(exp) if expression is exp else exp.transform(transforms.upper_case_unquoted_identifiers)
                self._execute(transformed, params)"""))
V("c07-nop-answered-without-engine", A, "C07", "C07.j",
  ("cursor", """                transformed = transforms.SUCCESS_NOP
                self._execute(transformed, params)
                return self""", """                self._arrow_table = pyarrow.table({"status": ["Statement executed successfully."]})
                self._arrow_table_fetch_index = None
                self._rowcount = 1
                self._last_sql = SQL_SUCCESS
                self._last_params = None
                return self"""))
V("c09-columns-redirect-drops-catalog", A, "C09", "C09.l",
  ("transforms", """        expression.set("this", exp.Identifier(this="_FS_COLUMNS_SNOWFLAKE", quoted=False))""",
   """        return exp.table_("_FS_COLUMNS_SNOWFLAKE", db=expression.db, alias=expression.alias or None)"""))
V("c09-neutral-columns-redirect-rebuilt", N, ["C09", "C03"], None,
  ("transforms", """        expression.set("this", exp.Identifier(this="_FS_COLUMNS_SNOWFLAKE", quoted=False))""",
   """        return exp.table_("_FS_COLUMNS_SNOWFLAKE", db=expression.db, catalog=expression.catalog or None, alias=expression.alias or None)"""))
V("c16-generator-not-consumed", A, "C16", "C16.a",
  ("conn", """        cursors = [
            self.cursor(cursor_class).execute(e.sql(dialect="snowflake"))
            for e in sqlglot.parse(sql_text, read="snowflake")
            if e and not isinstance(e, exp.Semicolon)  # ignore comments
        ]
        return cursors if return_cursors else []""", """        cursors = (
            self.cursor(cursor_class).execute(e.sql(dialect="snowflake"))
            for e in sqlglot.parse(sql_text, read="snowflake")
            if e and not isinstance(e, exp.Semicolon)  # ignore comments
        )
        return list(cursors) if return_cursors else []"""))
V("c16-neutral-generator-consumed", N, "C16", None,
  ("conn", """        cursors = [
            self.cursor(cursor_class).execute(e.sql(dialect="snowflake"))
            for e in sqlglot.parse(sql_text, read="snowflake")
            if e and not isinstance(e, exp.Semicolon)  # ignore comments
        ]
        return cursors if return_cursors else []""", """        pending = (
            self.cursor(cursor_class).execute(e.sql(dialect="snowflake"))
            for e in sqlglot.parse(sql_text, read="snowflake")
            if e and not isinstance(e, exp.Semicolon)  # ignore comments
        )
        cursors = list(pending)
        return cursors if return_cursors else []"""))
V("c03-show-in-schema-without-current-db", A, "C03", "C03.e",
  ("transforms", "        catalog = table.db or current_database\n        schema = table.name", "        catalog = table.db\n        schema = table.name"))
V("c10-scaled-to-timestamp-uncast", A, "C10", "C10.d",
  ("transforms", """    if isinstance(expression, exp.UnixToTime):
        return exp.Cast(""", """    if isinstance(expression, exp.UnixToTime):
        if expression.args.get("scale"):
            return expression
        return exp.Cast("""))
V("c18-every-tx-error-swallowed", A, ["C18", "C13"], "C13.c",
  ("cursor", """            if "cannot rollback - no transaction is active" in str(
                e
            ) or "cannot commit - no transaction is active" in str(e):""", """            if cmd in ("TRANSACTION", "COMMIT", "ROLLBACK"):"""))
V("c04-description-on-own-cursor", A, "C04", "C04.h",
  ("cursor", """        with self._conn.cursor() as cur:
            # TODO: can we replace with self._duck_conn.description?
            expression = sqlglot.parse_one(f"DESCRIBE {self._last_sql}", read="duckdb")
            cur._execute(expression, self._last_params)  # noqa: SLF001
            return cur.fetchall()""", """        held = (self._arrow_table, self._arrow_table_fetch_index, self._last_sql, self._last_params)
        try:
            expression = sqlglot.parse_one(f"DESCRIBE {self._last_sql}", read="duckdb")
            self._execute(expression, self._last_params)
            return self.fetchall()
        finally:
            self._arrow_table, self._arrow_table_fetch_index, self._last_sql, self._last_params = held"""))
V("c11-flatten-passes-fused", A, "C11", "C11.a",
  ("cursor", """            .transform(transforms.flatten_value_cast_as_varchar)
            .transform(transforms.flatten)""", """            .transform(lambda e: transforms.flatten(transforms.flatten_value_cast_as_varchar(e)))"""))
V("c15-stale-substitution-kept", A, "C15", "C15.k",
  ("variables", """    def _set(self, name: str, value: str) -> None:
        self._variables[name] = value""", """    def _set(self, name: str, value: str) -> None:
        self._variables.setdefault(name, value)"""))
V("c19-temporary-dropped-from-create", A, ["C19", "C12"], "C19.e",
  ("transforms", """                if isinstance(p, exp.SchemaCommentProperty) and (isinstance(p.this, (exp.Literal, exp.Var))):
                    comment = p.this.this
                else:""", """                if isinstance(p, exp.SchemaCommentProperty) and (isinstance(p.this, (exp.Literal, exp.Var))):
                    comment = p.this.this
                elif isinstance(p, exp.TemporaryProperty):
                    continue
                else:"""))

# ---------------------------------------------------------------- batches 9-11 rules
V("c05-arraysize-default-two", A, "C05", "C05.g", ("cursor", "        self._arraysize = 1\n", "        self._arraysize = 2\n"))
V("c05-sqlstate-not-initialised", A, "C05", "C05.g", ("cursor", "        self._sqlstate = None\n        self._arraysize = 1", "        self._arraysize = 1"))
V("c04-if-exists-lost-in-drop-schema", A, "C04", "C04.k",
  ("transforms", """    new = expression.copy()
    new.args["cascade"] = True
    return new""", """    return exp.Drop(this=expression.this, kind=kind, cascade=True)"""))
V("c12-when-condition-unnested", A, "C12", "C12.k",
  ("transforms_merge", """        condition = w.args.get("condition")

        if matched:""", """        condition = w.args.get("condition")
        condition = condition.unnest() if condition else condition

        if matched:"""))
V("c12-set-column-name-text", A, "C12", "C12.j",
  ("transforms_merge", """[f"{e.this.this} = {e.expression.sql()}" for e in then.args.get("expressions", [])]""",
   """[f"{e.this.name} = {e.expression.sql()}" for e in then.args.get("expressions", [])]"""))
V("c16-pretty-rendering", A, "C16", "C16.a",
  ("conn", """self.cursor(cursor_class).execute(e.sql(dialect="snowflake"))""", """self.cursor(cursor_class).execute(e.sql(dialect="snowflake", pretty=True))"""))
V("c08-json-dumps-before-quote", A, "C08", "C08.a",
  ("cursor", """            def convert(param: Any) -> Any:  # noqa: ANN401
                return""", """            def convert(param: Any) -> Any:  # noqa: ANN401
                if isinstance(param, (dict, list)):
                    import json
                    param = json.dumps(param)
                return"""))
V("c09-lengths-only-for-tables", A, "C09", "C09.m",
  ("transforms", """    if isinstance(expression, (exp.Create, exp.Alter)):
        text_lengths = []""", """    if isinstance(expression, (exp.Create, exp.Alter)) and str(expression.args.get("kind")).upper() == "TABLE":
        text_lengths = []"""))
V("c07-describe-on-other-cursor", A, "C07", "C07.b",
  ("cursor", """        self.execute(describe, *args, **kwargs)
        rows = self.fetchall()
        if self._use_dict_result:
            # the columns of a DESCRIBE result have distinct names, so their order is the dict order
            rows = [tuple(r.values()) for r in rows]  # pyright: ignore[reportAttributeAccessIssue]
        return describe_as_result_metadata(rows)""", """        with self._conn.cursor() as cur:
            cur.execute(describe, *args, **kwargs)
            return describe_as_result_metadata(cur.fetchall())"""))
V("c03-describe-unqualified-view", A, "C03", "C03.e",
  ("transforms", "FROM ${catalog}.information_schema._fs_columns_snowflake", "FROM information_schema._fs_columns_snowflake"))
V("c03-drop-schema-if-exists-guard", A, "C03", "C03.d",
  ("checks", """            no_database = not node.args.get("db" if node.args.get("this") else "catalog")""", """            no_database = not node.args.get("catalog")"""))
V("c02-neutral-exact-text-parse-cache", N, ["C02", "C16", "C08"], None,
  ("cursor", """class FakeSnowflakeCursor:
    def __init__(""", """_PARSED: dict[str, exp.Expression] = {}


def _parse(command: str) -> exp.Expression:
    # keyed by the exact text: quoted identifiers and literals are case-sensitive
    if command not in _PARSED:
        _PARSED[command] = parse_one(command, read="snowflake")
    return _PARSED[command].copy()


class FakeSnowflakeCursor:
    def __init__("""),
  ("cursor", """            expression = parse_one(command, read="snowflake")
            for exp in self._transform_explode(expression):""", """            expression = _parse(command)
            for exp in self._transform_explode(expression):"""))

# ---------------------------------------------------------------- batch-12 rules
V("c02-length-keys-lowered", A, "C02", "C02.j",
  ("info_schema", """f"('{catalog}', '{schema}', '{table}', '{col_name}', {size}, {min(size*4,16777216)})\"""",
   """f"('{catalog}', '{schema}', '{table}', '{col_name.lower()}', {size}, {min(size*4,16777216)})\""""))
V("c02-neutral-length-row-helper", N, ["C02", "C09"], None,
  ("info_schema", """    values = ", ".join(
        f"('{catalog}', '{schema}', '{table}', '{col_name}', {size}, {min(size*4,16777216)})"
        for (col_name, size) in text_lengths
    )
""", """    prefix = f"('{catalog}', '{schema}', '{table}', "
    values = ", ".join(prefix + f"'{col_name}', {size}, {min(size*4,16777216)})" for (col_name, size) in text_lengths)
"""))
V("c05-dict-rows-first-batch", A, "C05", "C05.h",
  ("cursor", "            return tslice.to_pylist()\n", "            return tslice.to_batches()[0].to_pylist()\n"))
V("c05-neutral-combine-chunks", N, "C05", None,
  ("cursor", "            return tslice.to_pylist()\n", "            return tslice.combine_chunks().to_pylist()\n"))
V("c06-describe-through-rewrite-chain", A, "C06", "C06.c",
  ("cursor", "            cur._execute(expression, self._last_params)  # noqa: SLF001",
   "            cur._execute(cur._transform(expression), self._last_params)  # noqa: SLF001"))
V("c07-exploded-skip-guard", A, "C07", "C07.k",
  ("cursor", """            for exp in self._transform_explode(expression):
                transformed = self._transform(exp)
                self._execute(transformed, params)
""", """            statements = self._transform_explode(expression)
            for exp in statements:
                transformed = self._transform(exp)
                self._execute(transformed, params, generated=len(statements) > 1)
"""),
  ("cursor", "    def _execute(self, transformed: exp.Expression, params: Sequence[Any] | dict[Any, Any] | None = None) -> None:",
   "    def _execute(self, transformed: exp.Expression, params: Sequence[Any] | dict[Any, Any] | None = None, generated: bool = False) -> None:"),
  ("cursor", "        no_database, no_schema = checks.is_unqualified_table_expression(transformed)\n",
   "        no_database, no_schema = (False, False) if generated else checks.is_unqualified_table_expression(transformed)\n"))
V("c08-placeholders-numbered-by-depth", A, "C08", "C08.d",
  ("cursor", """            expression = parse_one(command, read="snowflake")
            for exp in self._transform_explode(expression):""", """            expression = parse_one(command, read="snowflake")
            if params and not isinstance(params, dict):
                self._number_placeholders(expression)
            for exp in self._transform_explode(expression):"""),
  ("cursor", """    def _inline_variables(self, sql: str) -> str:""", """    def _number_placeholders(self, expression: exp.Expression) -> None:
        for i, p in enumerate(expression.find_all(exp.Placeholder), start=1):
            if not p.this:
                p.set("this", str(i))

    def _inline_variables(self, sql: str) -> str:"""))
V("c08-neutral-placeholders-numbered-in-text-order", N, "C08", None,
  ("cursor", """            expression = parse_one(command, read="snowflake")
            for exp in self._transform_explode(expression):""", """            expression = parse_one(command, read="snowflake")
            if params and not isinstance(params, dict):
                self._number_placeholders(expression)
            for exp in self._transform_explode(expression):"""),
  ("cursor", """    def _inline_variables(self, sql: str) -> str:""", """    def _number_placeholders(self, expression: exp.Expression) -> None:
        for i, p in enumerate(expression.find_all(exp.Placeholder, bfs=False), start=1):
            if not p.this:
                p.set("this", str(i))

    def _inline_variables(self, sql: str) -> str:"""))
V("c11-any-function-unquotes", A, "C11", "C11.d",
  ("transforms", "        isinstance(expression, (exp.Upper, exp.Lower))\n        and (gp := expression.this)",
   "        isinstance(expression, exp.Func)\n        and not isinstance(expression, exp.Cast)\n        and (gp := expression.this)"))
V("c12-on-first-conjunct-only", A, "C12", "C12.l",
  ("transforms_merge", """    source_tbl = source.alias if isinstance(source, exp.Subquery) else source
    join_expr = merge_expr.args.get("on")

    statements""", """    source_tbl = source.alias if isinstance(source, exp.Subquery) else source
    join_expr = merge_expr.args.get("on")
    if isinstance(join_expr, exp.And):
        join_expr = join_expr.this

    statements"""))
V("c16-nop-status-rewritten", A, "C16", "C16.b",
  ("cursor", "                transformed = transforms.SUCCESS_NOP\n", "                transformed = self._transform(transforms.SUCCESS_NOP)\n"))
V("c17-column-infos-by-name", A, "C17", "C17.i",
  ("server", """        if cur._arrow_table:  # noqa: SLF001
            batch_bytes""", """        if cur._arrow_table:  # noqa: SLF001
            column_info = {c["name"]: c for c in rowtype}
            rowtype = [column_info[name] for name in cur._arrow_table.column_names]  # noqa: SLF001
            batch_bytes"""))
V("c18-existing-file-not-attached", A, "C18", "C18.a",
  ("transforms", """        if_not_exists = "IF NOT EXISTS " if expression.args.get("exists") else ""
""", """        if expression.args.get("exists") and db_path and Path(db_file).exists():
            return sqlglot.parse_one(f"SELECT '{db_name} already exists, statement succeeded.' AS status")

        if_not_exists = "IF NOT EXISTS " if expression.args.get("exists") else ""
"""))
V("c03-show-schemas-database-at-cursor-creation", A, "C03", "C03.h",
  ("cursor", "        self._conn = conn\n        self._duck_conn = duck_conn\n", "        self._conn = conn\n        self._database_then = conn.database\n        self._duck_conn = duck_conn\n"),
  ("cursor", "            .transform(lambda e: transforms.show_schemas(e, self._conn.database))", "            .transform(lambda e: transforms.show_schemas(e, self._database_then))"))
V("c04-insert-values-batched", A, "C04", "C04.l",
  ("cursor", "        return transforms.merge(expression)\n", """        values = expression.expression if isinstance(expression, exp.Insert) else None
        if isinstance(values, exp.Values) and len(values.expressions) > 1000:
            batches = []
            for i in range(0, len(values.expressions), 1000):
                batch = expression.copy()
                batch.expression.set("expressions", values.expressions[i : i + 1000])
                batches.append(batch)
            return batches
        return transforms.merge(expression)
"""))
V("c05-neutral-single-batch-after-combine", N, "C05", None,
  ("cursor", "            return tslice.to_pylist()\n", """            batches = tslice.combine_chunks().to_batches()
            return batches[0].to_pylist() if batches else []
"""))

# ---------------------------------------------------------------- batch-13 rules
V("c01-float-columns-as-number", A, "C01", "C01.c7",
  ("pandas_tools", """    elif str(dtype) == "object":
        return "VARCHAR\"""", """    elif str(dtype) == "float64":
        return "NUMBER"
    elif str(dtype) == "object":
        return "VARCHAR\""""))
V("c01-neutral-more-dtypes", N, ["C01", "C03"], None,
  ("pandas_tools", """    elif str(dtype) == "object":
        return "VARCHAR\"""", """    elif str(dtype) == "float64":
        return "FLOAT"
    elif str(dtype) == "bool":
        return "BOOLEAN"
    elif str(dtype) == "datetime64[ns]":
        return "TIMESTAMP_NTZ"
    elif str(dtype) == "object":
        return "VARCHAR\""""))
V("c05-pandas-unsafe-conversion", A, "C05", "C05.f",
  ("cursor", "        return self._arrow_table.to_pandas()\n", "        return self._arrow_table.to_pandas(safe=False)\n"))
V("c05-neutral-pandas-threads", N, "C05", None,
  ("cursor", "        return self._arrow_table.to_pandas()\n", "        return self._arrow_table.to_pandas(use_threads=True)\n"))
V("c08-empty-params-still-formatted", A, "C08", "C08.a",
  ("cursor", """        if params and self._conn._paramstyle in ("pyformat", "format"):""", """        if params is not None and self._conn._paramstyle in ("pyformat", "format"):"""))
V("c16-lenient-split", A, "C16", "C16.a",
  ("conn", """            for e in sqlglot.parse(sql_text, read="snowflake")""", """            for e in sqlglot.parse(sql_text, read="snowflake", error_level=sqlglot.ErrorLevel.IGNORE)"""))
V("c17-login-evicts", A, "C17", "C17.a",
  ("server", "    sessions[token] = fs.connect(database, schema)\n", """    if len(sessions) >= 32:
        sessions.pop(next(iter(sessions))).close()
    sessions[token] = fs.connect(database, schema)
"""))
V("c18-db-path-only-when-creating", A, "C18", "C18.i",
  ("conn", "        self.db_path = Path(db_path) if db_path else None", "        self.db_path = Path(db_path) if db_path and create_database else None"))
V("c19-lengths-deleted-after-drop", A, "C19", "C19.g",
  ("cursor", """                result_sql = SQL_DROPPED.substitute(name=ident)
""", """                result_sql = SQL_DROPPED.substitute(name=ident)
                if cmd == "DROP TABLE" and self._conn.database:
                    self._duck_conn.execute(
                        f"DELETE FROM {self._conn.database}.information_schema._fs_columns_ext WHERE ext_table_name = '{ident}'"
                    )
"""))
V("c20-close-throwaway-cursor", A, "C20", "C20.a",
  ("__init__", "        fs.duck_conn.close()", "        fs.duck_conn.cursor().close()"))
V("c07-guard-all-tables", A, ["C07", "C03"], "C03.d",
  ("checks", """    else:
        no_database = not node.args.get("catalog")
        no_schema = not node.args.get("db")
""", """    else:
        tables = list(expression.find_all(exp.Table))
        no_database = any(not t.args.get("catalog") for t in tables)
        no_schema = any(not t.args.get("db") for t in tables)
"""))

# ---------------------------------------------------------------- batch-14 rules
V("c05-dict-rows-unless-tuple-cursor", A, "C05", "C05.i",
  ("conn", "use_dict_result=cursor_class == DictCursor", "use_dict_result=cursor_class != SnowflakeCursor"))
V("c16-patterns-kept-as-generator", A, "C16", "C16.d",
  ("conn", "        self.nop_regexes = nop_regexes\n", "        self.nop_regexes = nop_regexes and (p for p in nop_regexes)\n"))
V("c16-neutral-patterns-kept-as-tuple", N, ["C16", "C04", "C08"], None,
  ("conn", "        self.nop_regexes = nop_regexes\n", "        self.nop_regexes = nop_regexes and tuple(nop_regexes)\n"))
V("c13-commit-only-when-flagged", A, "C13", "C13.d",
  ("conn", '        self.cursor().execute("COMMIT")', '        if getattr(self, "_in_tx", False):\n            self.cursor().execute("COMMIT")'))
V("c11-object-construct-drops-values-mentioning-null", A, "C11", "C11.d",
  ("transforms", "            right_is_null = isinstance(right, exp.Null)\n",
   "            right_is_null = isinstance(right, exp.Null) or (isinstance(right, exp.Cast) and right.find(exp.Null) is not None)\n"))
V("c17-single-batch-only", A, "C17", "C17.j",
  ("arrow", "    batches = table.combine_chunks().to_batches()\n", "    batches = table.to_batches()\n"))
V("c17-neutral-write-all-batches", N, "C17", None,
  ("arrow", """    batches = table.combine_chunks().to_batches()
    if len(batches) != 1:
        raise NotImplementedError(f"{len(batches)} batches")
    batch = batches[0]

    sink = pa.BufferOutputStream()

    with pa.ipc.new_stream(sink, table.schema) as writer:
        writer.write_batch(batch)
""", """    sink = pa.BufferOutputStream()

    with pa.ipc.new_stream(sink, table.schema) as writer:
        for batch in table.to_batches():
            writer.write_batch(batch)
"""))
V("c15-executemany-raw-command-under-qmark", A, "C15", "C15.l",
  ("cursor", """        for p in seqparams:
            self.execute(command, p)
""", """        if self._conn._paramstyle not in ("pyformat", "format"):  # noqa: SLF001
            statements = [self._transform(e) for e in self._transform_explode(parse_one(command, read="snowflake"))]
            for p in seqparams:
                for transformed in statements:
                    self._execute(transformed, p)
            return self

        for p in seqparams:
            self.execute(command, p)
"""))
V("c05-close-rewinds-fetch-index", A, "C05", "C05.j",
  ("cursor", """        self._last_sql = None
        self._last_params = None
        return True""", """        self._last_sql = None
        self._last_params = None
        self._arrow_table_fetch_index = None
        return True"""))
V("c05-neutral-close-drops-result", N, "C05", None,
  ("cursor", """        self._last_sql = None
        self._last_params = None
        return True""", """        self._last_sql = None
        self._last_params = None
        self._arrow_table_fetch_index = None
        self._arrow_table = None
        return True"""))
V("c17-neutral-caller-combines-chunks", N, "C17", None,
  ("arrow", "    batches = table.combine_chunks().to_batches()\n", "    batches = table.to_batches()\n"),
  ("server", "to_ipc(to_sf(cur._arrow_table, rowtype))", "to_ipc(to_sf(cur._arrow_table, rowtype).combine_chunks())"))
