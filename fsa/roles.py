"""Role resolution of private attribute names.

Rules talk about "the attribute holding the result table", "the fetch index", "the arraysize attribute" … rather
than about today's spellings, so a consistent rename of a private attribute does not blind (or falsely alarm) a rule.
Each role is resolved from the code's structure; today's name is only the fallback of last resort.
"""

from __future__ import annotations

import ast

from .model import Program, norm

_cache: dict = {}


class Roles(dict):
    def __getattr__(self, k):
        return self[k]


_ALIASES: dict = {}  # while resolving one function: local name -> attribute path below self (`result = self._result`)
_OWNER: dict = {}  # leaf attribute -> path of the object that holds it, below the cursor (() = the cursor itself)


def _path(e) -> tuple | None:
    """attribute path below `self` of `self.a`, `self.a.b`, or `x.b` where the local x aliases `self.a`"""
    if isinstance(e, ast.NamedExpr):
        return _path(e.value)
    if isinstance(e, ast.Attribute):
        if isinstance(e.value, ast.Name):
            if e.value.id == "self":
                return (e.attr,)
            if e.value.id in _ALIASES:
                return (*_ALIASES[e.value.id], e.attr)
            return None
        base = _path(e.value)
        return (*base, e.attr) if base else None
    if isinstance(e, ast.Name) and e.id in _ALIASES:
        return _ALIASES[e.id]
    return None


def _with_aliases(fn):
    """collect `x = self.a[.b]` / `(x := self.a.b)` aliases of one function"""
    _ALIASES.clear()
    if fn is None:
        return
    for n in ast.walk(fn):
        if isinstance(n, ast.Assign) and len(n.targets) == 1 and isinstance(n.targets[0], ast.Name):
            p = _path(n.value)
            if p:
                _ALIASES[n.targets[0].id] = p
        elif isinstance(n, ast.NamedExpr) and isinstance(n.target, ast.Name):
            p = _path(n.value)
            if p:
                _ALIASES[n.target.id] = p


def _self_attr(e) -> str | None:
    """leaf attribute of a state location below self; the holder path is remembered in _OWNER"""
    p = _path(e) if isinstance(e, (ast.Attribute, ast.NamedExpr)) else None
    if not p:
        return None
    _OWNER[p[-1]] = tuple(p[:-1])
    return p[-1]


def roles(prog: Program) -> Roles:
    key = prog.digest()
    if key in _cache:
        return _cache[key]
    m = prog.mod("cursor")
    cls = "FakeSnowflakeCursor"
    r = Roles(table="_arrow_table", index="_arrow_table_fetch_index", arraysize="_arraysize", rowcount="_rowcount", sqlstate="_sqlstate",
              last_sql="_last_sql", last_params="_last_params", dict_flag="_use_dict_result", conn="_conn", duck="_duck_conn",
              paramstyle="_paramstyle", variables="_variables", conn_duck="_duck_conn", connect_lock="_connect_lock")

    def fn(q):
        f_ = m.functions.get(f"{cls}.{q}")
        _with_aliases(f_)
        return f_

    _OWNER.clear()

    # properties that return an attribute
    for prop, role in (("rowcount", "rowcount"), ("sqlstate", "sqlstate"), ("arraysize", "arraysize")):
        f = fn(prop)
        if f is not None:
            for n in ast.walk(f):
                if isinstance(n, ast.Return) and _self_attr(n.value):
                    r[role] = _self_attr(n.value)
    # result table: the attribute assigned from <engine>.fetch_arrow_table()
    ex = fn("_execute")
    if ex is not None:
        for n in ast.walk(ex):
            if isinstance(n, ast.Assign) and isinstance(n.value, ast.Call) and isinstance(n.value.func, ast.Attribute) \
                    and n.value.func.attr == "fetch_arrow_table":
                if _self_attr(n.targets[0]):
                    r["table"] = _self_attr(n.targets[0])
                elif isinstance(n.targets[0], ast.Name):
                    # fetched into a local first: the attribute the local is stored into
                    for n2 in ast.walk(ex):
                        if isinstance(n2, ast.Assign) and isinstance(n2.value, ast.Name) and n2.value.id == n.targets[0].id and _self_attr(n2.targets[0]):
                            r["table"] = _self_attr(n2.targets[0])
    # fetch index: the attribute used as the slice offset in the slicing method
    fm = fn("fetchmany")
    if fm is not None:
        for c in ast.walk(fm):
            if isinstance(c, ast.Call) and isinstance(c.func, ast.Attribute) and c.func.attr == "slice":
                cand = [k.value for k in c.keywords if k.arg == "offset"] or list(c.args[:1])
                for e in cand:
                    for sub in ast.walk(e):
                        if _self_attr(sub) and _self_attr(sub) != r["table"]:
                            r["index"] = _self_attr(sub)
                    if isinstance(e, ast.Name):  # offset hoisted into a local: find what the local was computed from
                        for a in ast.walk(fm):
                            if isinstance(a, ast.Assign) and any(isinstance(t, ast.Name) and t.id == e.id for t in a.targets):
                                for sub in ast.walk(a.value):
                                    if _self_attr(sub) and _self_attr(sub) != r["table"]:
                                        r["index"] = _self_attr(sub)
    # recorded statement: the attribute described by the description getter
    for q in ("_describe_last_sql", "description"):
        f = fn(q)
        if f is not None:
            for n in ast.walk(f):
                if isinstance(n, ast.JoinedStr) and any(isinstance(v, ast.Constant) and "DESCRIBE" in str(v.value).upper() for v in n.values):
                    for v in n.values:
                        if isinstance(v, ast.FormattedValue) and _self_attr(v.value):
                            r["last_sql"] = _self_attr(v.value)
    # __init__: attributes assigned from the constructor's parameters
    init = fn("__init__")
    if init is not None:
        for n in ast.walk(init):
            if isinstance(n, ast.Assign) and _self_attr(n.targets[0]) and isinstance(n.value, ast.Name):
                if n.value.id == "conn":
                    r["conn"] = _self_attr(n.targets[0])
                elif n.value.id == "duck_conn":
                    r["duck"] = _self_attr(n.targets[0])
                elif n.value.id == "use_dict_result":
                    r["dict_flag"] = _self_attr(n.targets[0])
    # last_params: the other attribute stored next to last_sql at the end of _execute
    if ex is not None:
        _with_aliases(ex)
        stores = [(_self_attr(n.targets[0]), n) for n in ast.walk(ex) if isinstance(n, ast.Assign) and _self_attr(n.targets[0])]
        for a, n in stores:
            if any(isinstance(x, ast.Name) and x.id == "params" for x in ast.walk(n.value)) and a not in (r["table"], r["rowcount"], r["last_sql"]):
                r["last_params"] = a
    # connection: paramstyle snapshot, engine handle, variables mapping
    cm = prog.modules.get("conn")
    if cm is not None:
        ci = cm.functions.get("FakeSnowflakeConnection.__init__")
        _with_aliases(ci)
        if ci is not None:
            for n in ast.walk(ci):
                if isinstance(n, ast.Assign) and _self_attr(n.targets[0]):
                    if norm(n.value) == "snowflake.connector.paramstyle":
                        r["paramstyle"] = _self_attr(n.targets[0])
                    if isinstance(n.value, ast.Name) and n.value.id == "duck_conn":
                        r["conn_duck"] = _self_attr(n.targets[0])
    vm = prog.modules.get("variables")
    if vm is not None:
        vi = vm.functions.get("Variables.__init__")
        _with_aliases(vi)
        if vi is not None:
            for n in ast.walk(vi):
                if isinstance(n, ast.Assign) and _self_attr(n.targets[0]) and isinstance(n.value, (ast.Dict, ast.Call)):
                    r["variables"] = _self_attr(n.targets[0])
                    break
    # the helper of write_pandas that runs the INSERT … SELECT FROM <frame> (found by what it does, not by its name)
    r["insert_frame"] = "_insert_df"
    pm = prog.modules.get("pandas_tools")
    if pm is not None:
        for q, f in pm.functions.items():
            if q != "write_pandas" and any(isinstance(n, ast.Constant) and isinstance(n.value, str) and "INSERT INTO" in n.value.upper() for n in ast.walk(f)):
                r["insert_frame"] = q
                break
        else:
            r["insert_frame"] = "write_pandas" if "write_pandas" in pm.functions else "_insert_df"
    # where each piece of cursor state lives: on the cursor itself (()) or in a holder object below it (("_result",))
    r["owner_path"] = {role: _OWNER.get(r[role], ()) for role in ("table", "index", "rowcount", "last_sql", "last_params", "sqlstate", "arraysize")}
    _cache[key] = r
    return r
