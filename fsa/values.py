"""Abstract values of the E7 interpreter."""

from __future__ import annotations

import ast


class Val:
    pass


class Const(Val):
    __slots__ = ("v",)

    def __init__(self, v):
        self.v = v

    def __repr__(self):
        return f"Const({self.v!r})"

    @property
    def tag(self):
        return repr(self.v)


class Sym(Val):
    """Unknown value.  `truthy` may be known; `origin` is the provenance tree
    ('call', fname, args) | ('method', recv, name, args) | ('binop', op, l, r) | ('input', name) ..."""

    __slots__ = ("tag", "truthy", "origin", "typ", "notnone", "distinct")

    def __init__(self, tag: str, truthy=None, origin=None, typ=None, notnone=None, distinct=False):
        self.distinct = distinct  # a generic user-chosen name, different from every constant in the code
        self.tag = tag
        self.truthy = truthy
        self.origin = origin
        self.typ = typ  # 'str' | 'int' | 'bool' | None
        self.notnone = notnone if notnone is not None else (True if truthy else None)

    def __repr__(self):
        return f"Sym({self.tag})"


class Str(Val):
    """String with holes: parts are str | Val."""

    __slots__ = ("parts",)

    def __init__(self, parts):
        flat = []
        for p in parts:
            if isinstance(p, Str):
                flat.extend(p.parts)
            elif isinstance(p, Const) and isinstance(p.v, str):
                flat.append(p.v)
            else:
                flat.append(p)
        merged = []
        for p in flat:
            if isinstance(p, str) and merged and isinstance(merged[-1], str):
                merged[-1] += p
            elif p != "":
                merged.append(p)
        self.parts = merged

    def text(self) -> str:
        return "".join(p if isinstance(p, str) else "{" + tagof(p) + "}" for p in self.parts)

    @property
    def tag(self):
        return "f" + repr(self.text())

    def holes(self):
        return [p for p in self.parts if not isinstance(p, str)]

    def nonempty(self) -> bool:
        return any(isinstance(p, str) and p for p in self.parts) or any(
            isinstance(p, Sym) and p.truthy for p in self.parts
        )

    def __repr__(self):
        return f"Str({self.text()!r})"


def mkstr(parts) -> Val:
    s = Str(parts)
    if all(isinstance(p, str) for p in s.parts):
        return Const("".join(s.parts))
    return s


class Tup(Val):
    __slots__ = ("items",)

    def __init__(self, items):
        self.items = list(items)

    @property
    def tag(self):
        return "(" + ",".join(tagof(i) for i in self.items) + ")"

    def __repr__(self):
        return f"Tup{self.items}"


class Lst(Val):
    __slots__ = ("items", "open")

    def __init__(self, items, open=False):
        self.items = list(items)
        self.open = open  # may contain further unknown elements

    @property
    def tag(self):
        return "[" + ",".join(tagof(i) for i in self.items) + "]"

    def __repr__(self):
        return f"Lst{self.items}"


class OneShot(Lst):
    """An iterator the caller hands in (a generator, `zip(...)`, `iter(rows)`): its elements can be consumed once; every later
    iteration finds it exhausted."""
    __slots__ = ("consumed",)

    def __init__(self, items):
        super().__init__(items)
        self.consumed = False

    @property
    def tag(self):
        return "iter" + super().tag


class Dct(Val):
    __slots__ = ("items", "shared_name", "keyvals")

    def __init__(self, items=None):
        self.items = dict(items or {})  # python key -> Val
        self.shared_name = None
        self.keyvals = {}  # python key -> the abstract key value (class refs, enum members ... as keys)

    @property
    def tag(self):
        return "{" + ",".join(f"{k!r}:{tagof(v)}" for k, v in self.items.items()) + "}"


class Seq(Val):
    """Homogeneous sequence of unknown length; `elem` is the abstract element."""

    __slots__ = ("elem", "kind", "src")

    def __init__(self, elem, kind="seq", src=None):
        self.elem = elem
        self.kind = kind
        self.src = src

    @property
    def tag(self):
        return f"{self.kind}<{tagof(self.elem)}>"

    def __repr__(self):
        return f"Seq({self.elem!r})"


class Obj(Val):
    """Mutable record (self, the connection, the engine handle, ...)."""

    def __init__(self, name: str, cls: tuple[str, str] | None = None, kind: str | None = None, **attrs):
        self.name = name
        self.cls = cls  # (module, class) of an intra-package class
        self.kind = kind  # 'duck' for engine handles
        self.attrs = dict(attrs)

    @property
    def tag(self):
        return self.name

    def __repr__(self):
        return f"Obj({self.name})"


class NodeV(Val):
    """Abstract sqlglot expression node."""

    def __init__(self, cls: str | None, args: dict | None = None, name: str = "node", open: bool = True,
                 notcls: set | None = None):
        self.cls = cls  # sqlglot class name or None (unknown)
        self.args = dict(args or {})
        self.name = name
        self.open = open  # unknown slots exist (answers are Syms) vs closed (missing slot -> None)
        self.notcls = set(notcls or ())
        self.parent = None
        self.fresh = False  # constructed by the analysed code

    @property
    def tag(self):
        return self.name

    def __repr__(self):
        return f"Node({self.cls}:{self.name})"


class FlagV(Val):
    """A value of a package-defined enum.Flag class: the set of member names that are set (the zero member is the empty set)."""
    __slots__ = ("cls", "members", "universe")

    def __init__(self, cls: str, members, universe):
        self.cls, self.members, self.universe = cls, frozenset(members), tuple(universe)

    @property
    def tag(self):
        return f"{self.cls}.{'|'.join(sorted(self.members)) or '0'}"

    def __repr__(self):
        return f"FlagV({self.tag})"


class EnumV(Val):
    __slots__ = ("dotted", "value_", "mixin")

    def __init__(self, dotted: str, value=None):
        self.dotted = dotted
        self.value_ = value  # the member's value, for package-defined enums
        self.mixin = False  # the class mixes in str / int: members compare and hash like their values

    @property
    def tag(self):
        return self.dotted

    @property
    def member(self):
        return self.dotted.rsplit(".", 1)[-1]

    def __repr__(self):
        return f"Enum({self.dotted})"


class ClsRef(Val):
    __slots__ = ("dotted",)

    def __init__(self, dotted: str):
        self.dotted = dotted

    @property
    def tag(self):
        return self.dotted

    @property
    def short(self):
        return self.dotted.rsplit(".", 1)[-1]

    def __repr__(self):
        return f"Cls({self.dotted})"


class Ext(Val):
    """External module / function / attribute by dotted name."""

    __slots__ = ("dotted",)

    def __init__(self, dotted: str):
        self.dotted = dotted

    @property
    def tag(self):
        return self.dotted

    def __repr__(self):
        return f"Ext({self.dotted})"


class Func(Val):
    def __init__(self, mod: str, qual: str, node: ast.AST, self_val=None, closure=None):
        self.mod, self.qual, self.node, self.self_val, self.closure = mod, qual, node, self_val, closure

    @property
    def tag(self):
        return f"{self.mod}.{self.qual}"

    def __repr__(self):
        return f"Func({self.mod}.{self.qual})"


class Lam(Val):
    def __init__(self, node: ast.Lambda, env, mod: str):
        self.node, self.env, self.mod = node, env, mod

    @property
    def tag(self):
        return "lambda"


class Gen(Val):
    """A generator expression bound to a name (or returned) before anything iterates it: its body runs when — and only if —
    something consumes it (a call that receives it, a loop, a comprehension)."""

    def __init__(self, node, env, call=None):
        self.node, self.env, self.result = node, env, None
        self.call = call  # (function, args, kwargs, site) for a call of a generator *function*: its body runs when consumed

    @property
    def tag(self):
        return f"genexp@{getattr(self.node, 'lineno', '?')}" if self.call is None else f"generator {self.call[0].tag}()"


class Bound(Val):
    """Method of an abstract value."""

    def __init__(self, recv, name: str):
        self.recv, self.name = recv, name

    @property
    def tag(self):
        return f"{tagof(self.recv)}.{self.name}"

    def __repr__(self):
        return f"Bound({self.recv!r}.{self.name})"


class Part(Val):
    """functools.partial(func, *args, **kwargs)"""

    def __init__(self, func, args, kwargs):
        self.func, self.args, self.kwargs = func, list(args), dict(kwargs)

    @property
    def tag(self):
        return f"partial({tagof(self.func)})"


class Tpl(Val):
    """string.Template instance."""

    def __init__(self, text: Val, name: str = ""):
        self.text = text
        self.name = name

    @property
    def tag(self):
        return f"Template({self.name})"


class ExcV(Val):
    def __init__(self, cls: str, kwargs=None, args=None):
        self.cls = cls
        self.kwargs = dict(kwargs or {})
        self.args = list(args or [])
        self.attrs = {}

    @property
    def tag(self):
        return f"exc:{self.cls}"

    def __repr__(self):
        return f"Exc({self.cls},{ {k: v for k, v in self.kwargs.items() if k != 'msg'} })"


class ArgsView(Val):
    def __init__(self, node: NodeV):
        self.node = node

    @property
    def tag(self):
        return f"{self.node.name}.args"


def tagof(v) -> str:
    if isinstance(v, str):
        return v
    return getattr(v, "tag", None) or repr(v)
