"""Abstract input domain and harness for the statement path
``_transform`` -> ``_execute`` of the fake cursor (shared by C03, C04, C05, C06, C07, C13).

Statement *descriptors* are closed abstract sqlglot nodes shaped like what the Snowflake parser
emits for each statement kind (shapes confirmed once against the pinned parser; identifiers are
abstract names already folded by pipeline stage 0).  Each descriptor is pushed through the real
pipeline method (every stage interpreted at the root) and then through ``_execute`` under each
engine outcome of the primary call (accepts / raises one exception class of the translation table).
The result is one effect trace per feasible path: engine calls with their SQL templates, stores to
the connection and the cursor, the exception that leaves, final cursor state.
"""

from __future__ import annotations

from .interp import Hooks, Interp, _Raise, explore
from .model import AnalysisError, Program
from .values import ClsRef, Const, Dct, ExcV, Lst, NodeV, Obj, Str, Sym, Tup, tagof

CURSOR = ("cursor", "FakeSnowflakeCursor")


# ---------------------------------------------------------------------- descriptors
def name(n: str) -> Sym:
    return Sym(n, truthy=True, typ="str", origin=("upper", ("input", n)), distinct=True)


def ident(n: str, quoted: bool = False) -> NodeV:
    return NodeV("Identifier", {"this": name(n), "quoted": Const(quoted)}, name=f"id:{n}", open=False)


def table(n: str | None, db: str | None = None, cat: str | None = None) -> NodeV:
    a = {}
    if n:
        a["this"] = ident(n)
    if db:
        a["db"] = ident(db)
    if cat:
        a["catalog"] = ident(cat)
    t = NodeV("Table", a, name=f"tbl:{'.'.join(x for x in (cat, db, n) if x)}", open=False)
    for v in a.values():
        v.parent = t
    return t


def node(cls: str, nm: str | None = None, **args) -> NodeV:
    n = NodeV(cls, args, name=nm or cls.lower(), open=False)
    for v in args.values():
        if isinstance(v, NodeV) and v.parent is None:
            v.parent = n
        if isinstance(v, Lst):
            for x in v.items:
                if isinstance(x, NodeV) and x.parent is None:
                    x.parent = n
    return n


def var(s: str) -> NodeV:
    return node("Var", this=Const(s))


def lit(v, is_string=True) -> NodeV:
    return node("Literal", this=v if not isinstance(v, str) else Const(v), is_string=Const(is_string))


def coldef(nm: str, typ: str, size: int | None = None) -> NodeV:
    from .values import EnumV

    dt_args = {"this": EnumV(f"DataType.Type.{typ}"), "nested": Const(False)}
    if size is not None:
        dt_args["expressions"] = Lst([node("DataTypeParam", this=lit(str(size), False))])
    return node("ColumnDef", this=ident(nm), kind=node("DataType", **dt_args))


def descriptors() -> dict[str, NodeV]:
    """kind -> parser-level descriptor (a fresh object graph on every call)."""
    d: dict[str, NodeV] = {}
    d["SELECT"] = node("Select", "stmt", expressions=Lst([node("Column", this=ident("C"))]),
                       **{"from": node("From", this=table("T"))})
    d["SELECT qualified"] = node("Select", "stmt", expressions=Lst([node("Star")]),
                                 **{"from": node("From", this=table("T", "S", "D"))})
    # <nothing>.information_schema.<view>: the schema part is given (and is a name every database has), the database is not
    _isv = NodeV("Table", {"this": NodeV("Identifier", {"this": Const("SCHEMATA"), "quoted": Const(False)}, name="id:SCHEMATA", open=False),
                           "db": NodeV("Identifier", {"this": Const("INFORMATION_SCHEMA"), "quoted": Const(False)}, name="id:INFORMATION_SCHEMA", open=False)},
                 name="tbl:INFORMATION_SCHEMA.SCHEMATA", open=False)
    for v_ in _isv.args.values():
        v_.parent = _isv
    d["SELECT information_schema view"] = node("Select", "stmt", expressions=Lst([node("Star")]), **{"from": node("From", this=_isv)})
    # a fully qualified table in a scalar subquery of the projection, an unqualified one in FROM: the statement still
    # needs the current database and schema (the FROM table is the shallowest one)
    d["SELECT qualified subquery in projection"] = node(
        "Select", "stmt",
        expressions=Lst([node("Subquery", this=node("Select", expressions=Lst([node("Star")]),
                                                    **{"from": node("From", this=table("Q", "S", "D"))})),
                         node("Column", this=ident("C"))]),
        **{"from": node("From", this=table("T"))})
    d["SELECT qualified FROM unqualified JOIN"] = node(
        "Select", "stmt", expressions=Lst([node("Star")]),
        **{"from": node("From", this=table("Q", "S", "D")), "joins": Lst([node("Join", this=table("T"))])})
    # with c1 as (select 1) select * from d.s.q join c1: the reference to the CTE is a bare Table node, but names no schema object
    d["SELECT qualified JOIN cte"] = node(
        "Select", "stmt",
        **{"with": node("With", expressions=Lst([node("CTE", this=node("Select", expressions=Lst([lit("1", False)])),
                                                      alias=node("TableAlias", this=ident("C1")))])),
           "expressions": Lst([node("Star")]),
           "from": node("From", this=table("Q", "S", "D")), "joins": Lst([node("Join", this=table("C1"))])})
    d["UNION"] = node("Union", "stmt", this=node("Select", expressions=Lst([lit("1", False)])),
                      expression=node("Select", expressions=Lst([lit("2", False)])))
    d["INSERT"] = node("Insert", "stmt", this=table("T"),
                       expression=node("Values", expressions=Lst([node("Tuple", expressions=Lst([lit("1", False)]))])))
    d["UPDATE"] = node("Update", "stmt", this=table("T"),
                       expressions=Lst([node("EQ", this=node("Column", this=ident("A")), expression=lit("1", False))]))
    d["DELETE"] = node("Delete", "stmt", this=table("T"))
    d["CREATE TABLE"] = node("Create", "stmt", kind=Const("TABLE"),
                             this=node("Schema", this=table("T"), expressions=Lst([coldef("A", "BIGINT")])))
    d["CREATE TABLE IF NOT EXISTS"] = node("Create", "stmt", kind=Const("TABLE"), exists=Const(True),
                                           this=node("Schema", this=table("T"), expressions=Lst([coldef("A", "BIGINT")])))
    d["CREATE TABLE varchar+comment"] = node(
        "Create", "stmt", kind=Const("TABLE"),
        this=node("Schema", this=table("T"), expressions=Lst([coldef("A", "VARCHAR", 10)])),
        properties=node("Properties", expressions=Lst([node("SchemaCommentProperty", this=lit(Sym("comment", typ="str", truthy=True)))])))
    d["CREATE OR REPLACE TABLE empty comment"] = node(
        "Create", "stmt", kind=Const("TABLE"), replace=Const(True),
        this=node("Schema", this=table("T"), expressions=Lst([coldef("A", "BIGINT")])),
        properties=node("Properties", expressions=Lst([node("SchemaCommentProperty", this=lit(""))])))
    d["CREATE TABLE props no comment"] = node(
        "Create", "stmt", kind=Const("TABLE"),
        this=node("Schema", this=table("T"), expressions=Lst([coldef("A", "BIGINT")])),
        properties=node("Properties", expressions=Lst([node("TransientProperty")])))
    d["CREATE TEMPORARY TABLE AS"] = node(
        "Create", "stmt", kind=Const("TABLE"), replace=Const(True), this=table("T"),
        expression=node("Select", expressions=Lst([node("Star")]), **{"from": node("From", this=table("U"))}),
        properties=node("Properties", expressions=Lst([node("TemporaryProperty")])))
    d["CREATE TABLE AS"] = node("Create", "stmt", kind=Const("TABLE"), this=table("T"),
                                expression=node("Select", expressions=Lst([node("Star")]), **{"from": node("From", this=table("U"))}))
    d["CREATE TABLE CLONE"] = node("Create", "stmt", kind=Const("TABLE"), this=table("T2"),
                                   clone=node("Clone", this=table("T")))
    d["CREATE VIEW"] = node("Create", "stmt", kind=Const("VIEW"), this=table("V"), replace=Const(True),
                            expression=node("Select", expressions=Lst([lit("1", False)])))
    d["CREATE SCHEMA"] = node("Create", "stmt", kind=Const("SCHEMA"), this=table(None, "S"))
    d["CREATE DATABASE"] = node("Create", "stmt", kind=Const("DATABASE"), this=table("D"))
    d["CREATE DATABASE IF NOT EXISTS"] = node("Create", "stmt", kind=Const("DATABASE"), this=table("D"), exists=Const(True))
    d["CREATE TRANSIENT DATABASE"] = node("Create", "stmt", kind=Const("DATABASE"), this=table("D"),
                                          properties=node("Properties", expressions=Lst([node("TransientProperty")])))
    d["CREATE OR REPLACE DATABASE"] = node("Create", "stmt", kind=Const("DATABASE"), this=table("D"), replace=Const(True))
    d["CREATE SEQUENCE"] = node("Create", "stmt", kind=Const("SEQUENCE"), this=table("SEQ"))
    d["CREATE TAG"] = node("Create", "stmt", kind=Const("TAG"), this=ident("TG"))
    d["DROP TABLE"] = node("Drop", "stmt", kind=Const("TABLE"), this=table("T"))
    d["DROP VIEW"] = node("Drop", "stmt", kind=Const("VIEW"), this=table("V"))
    d["DROP SCHEMA"] = node("Drop", "stmt", kind=Const("SCHEMA"), this=table(None, "S"))
    d["DROP DATABASE"] = node("Drop", "stmt", kind=Const("DATABASE"), this=table("D"))
    # objects of another kind that merely share their name with the current schema / database
    d["DROP TABLE named like the current schema"] = node("Drop", "stmt", kind=Const("TABLE"), this=table("CUR_SCHEMA"))
    d["DROP VIEW named like the current database"] = node("Drop", "stmt", kind=Const("VIEW"), this=table("CUR_DB"))
    d["DROP SCHEMA named like the current database"] = node("Drop", "stmt", kind=Const("SCHEMA"), this=table(None, "CUR_DB"))
    d["DROP SCHEMA of the same name in another database"] = node("Drop", "stmt", kind=Const("SCHEMA"), this=table(None, "CUR_SCHEMA", "D2"))
    # with IF EXISTS the pinned parser puts the schema's name in `this` and its database in `db`
    d["DROP SCHEMA IF EXISTS current"] = node("Drop", "stmt", kind=Const("SCHEMA"), exists=Const(True), this=table("CUR_SCHEMA"))
    d["DROP SCHEMA IF EXISTS of the same name in another database"] = node("Drop", "stmt", kind=Const("SCHEMA"), exists=Const(True),
                                                                          this=table("CUR_SCHEMA", "D2"))
    d["DROP SCHEMA current"] = node("Drop", "stmt", kind=Const("SCHEMA"), this=table(None, "CUR_SCHEMA"))
    d["DROP DATABASE current"] = node("Drop", "stmt", kind=Const("DATABASE"), this=table("CUR_DB"))
    d["ALTER TABLE ADD COLUMN"] = node("Alter", "stmt", kind=Const("TABLE"), this=table("T"),
                                       actions=Lst([coldef("B", "VARCHAR", 20)]))
    d["ALTER TABLE RENAME"] = node("Alter", "stmt", kind=Const("TABLE"), this=table("T"),
                                   actions=Lst([node("RenameTable", this=table("T9"))]))
    d["ALTER VIEW RENAME"] = node("Alter", "stmt", kind=Const("VIEW"), this=table("V"),
                                  actions=Lst([node("RenameTable", this=table("V9"))]))
    d["ALTER TABLE SET COMMENT"] = node(
        "Alter", "stmt", kind=Const("TABLE"), this=table("T"),
        actions=Lst([node("AlterSet", expressions=Lst([node("Properties", expressions=Lst([
            node("SchemaCommentProperty", this=lit(Sym("comment", typ="str", truthy=True)))]))]))]))
    d["ALTER TABLE CLUSTER BY"] = node("Alter", "stmt", kind=Const("TABLE"), this=table("T"),
                                       actions=Lst([node("Cluster", expressions=Lst([]))]))
    d["ALTER TABLE SET TAG"] = node("Alter", "stmt", kind=Const("TABLE"), this=table("T"),
                                    actions=Lst([node("AlterSet", tag=Lst([node("EQ", this=node("Column", this=ident("TG")), expression=lit("v"))]))]))
    d["ALTER COLUMN COMMENT"] = node("Alter", "stmt", kind=Const("TABLE"), this=table("T"),
                                     actions=Lst([node("AlterColumn", this=ident("A"), comment=lit("x"))]))
    d["COMMENT ON TABLE"] = node("Comment", "stmt", kind=Const("table"), this=table("T"),
                                 expression=lit(Sym("comment", typ="str", truthy=True)))
    d["USE DATABASE"] = node("Use", "stmt", kind=var("DATABASE"), this=table("D2"))
    d["USE DATABASE current"] = node("Use", "stmt", kind=var("DATABASE"), this=table("CUR_DB"))
    d["USE SCHEMA current"] = node("Use", "stmt", kind=var("SCHEMA"), this=table("CUR_SCHEMA"))
    d["USE SCHEMA"] = node("Use", "stmt", kind=var("SCHEMA"), this=table("S2"))
    d["USE SCHEMA qualified"] = node("Use", "stmt", kind=var("SCHEMA"), this=table("S2", "D2"))
    d["USE (no kind)"] = node("Use", "stmt", this=table("S2", "D2"))
    d["BEGIN"] = node("Transaction", "stmt")
    d["COMMIT"] = node("Commit", "stmt")
    d["ROLLBACK"] = node("Rollback", "stmt")
    d["TRUNCATE"] = node("TruncateTable", "stmt", expressions=Lst([table("T")]))
    d["SHOW TABLES"] = node("Show", "stmt", this=Const("TABLES"), terse=Const(False))
    d["SHOW TABLES IN SCHEMA"] = node("Show", "stmt", this=Const("TABLES"), terse=Const(False),
                                      scope=table("S"), scope_kind=Const("SCHEMA"))
    d["SHOW TERSE OBJECTS IN DATABASE"] = node("Show", "stmt", this=Const("OBJECTS"), terse=Const(True),
                                               scope=table("D"), scope_kind=Const("DATABASE"))
    d["SHOW SCHEMAS"] = node("Show", "stmt", this=Const("SCHEMAS"), terse=Const(False))
    d["SHOW SCHEMAS IN DATABASE"] = node("Show", "stmt", this=Const("SCHEMAS"), terse=Const(False),
                                         scope=table("D"), scope_kind=Const("DATABASE"))
    # the short form `SHOW SCHEMAS IN d`: the pinned parser gives scope_kind TABLE (confirmed once against sqlglot 25.24.5)
    d["SHOW SCHEMAS IN <database>"] = node("Show", "stmt", this=Const("SCHEMAS"), terse=Const(False),
                                           scope=table("D"), scope_kind=Const("TABLE"))
    d["SHOW PRIMARY KEYS"] = node("Show", "stmt", this=Const("PRIMARY KEYS"), terse=Const(False))
    d["SHOW PRIMARY KEYS IN TABLE"] = node("Show", "stmt", this=Const("PRIMARY KEYS"), terse=Const(False),
                                           scope=table("T"), scope_kind=Const("TABLE"))
    d["SHOW UNIQUE KEYS"] = node("Show", "stmt", this=Const("UNIQUE KEYS"), terse=Const(False))
    d["SHOW IMPORTED KEYS"] = node("Show", "stmt", this=Const("IMPORTED KEYS"), terse=Const(False))
    d["SHOW USERS"] = node("Show", "stmt", this=Const("USERS"), terse=Const(False))
    d["DESCRIBE TABLE"] = node("Describe", "stmt", kind=Const("table"), this=table("T"))
    d["DESCRIBE VIEW"] = node("Describe", "stmt", kind=Const("view"), this=table("V", "S"))
    d["DESCRIBE query"] = node("Describe", "stmt", this=node("Select", expressions=Lst([lit("1", False)])))
    d["SET variable"] = node("Set", "stmt", unset=Const(False), tag=Const(False), expressions=Lst([
        node("SetItem", this=node("EQ", this=node("Column", this=ident("V")), expression=lit("1", False)))]))
    d["UNSET variable"] = node("Alias", "stmt", this=node("Column", this=NodeV(
        "Identifier", {"this": Const("UNSET"), "quoted": Const(False)}, name="id:UNSET", open=False)), alias=ident("V"))
    d["CALL (Command)"] = node("Command", "stmt", this=Const("CALL"), expression=lit("p()"))
    d["CREATE USER (Command)"] = node("Command", "stmt", this=Const("CREATE"), expression=Const("USER u1"))
    d["GRANT"] = node("Grant", "stmt", securable=table("T"))
    # select upper(?), ? — two server-side placeholders at different depths of the tree
    d["SELECT placeholders"] = node("Select", "stmt", expressions=Lst([
        node("Upper", this=NodeV("Placeholder", {}, name="ph1", open=False)), NodeV("Placeholder", {}, name="ph2", open=False)]))
    return d


def descriptor(kind: str) -> NodeV:
    """descriptors()[kind], or — for ``<kind> @schema`` / ``<kind> @full`` — the same statement with its target table
    T written schema-qualified (S9.T) or fully qualified (D9.S9.T)."""
    base, _, level = kind.partition(" @")
    d = descriptors()[base]
    if not level or level == "db_path":  # "@db_path": the same statement on an instance that keeps its databases in files
        return d
    seen: set[int] = set()

    def find(v):
        if id(v) in seen:
            return None
        seen.add(id(v))
        if isinstance(v, NodeV):
            if v.cls == "Table" and v.name == "tbl:T":
                return v
            for x in v.args.values():
                r = find(x)
                if r is not None:
                    return r
        elif isinstance(v, Lst):
            for x in v.items:
                r = find(x)
                if r is not None:
                    return r
        return None

    t = find(d)
    if t is None:
        raise AnalysisError(f"descriptor {base!r} has no target table T to qualify")
    t.args["db"] = ident("S9")
    t.args["db"].parent = t
    if level == "full":
        t.args["catalog"] = ident("D9")
        t.args["catalog"].parent = t
    t.name = "tbl:" + ("D9.S9.T" if level == "full" else "S9.T")
    return d


# ---------------------------------------------------------------------- harness
ENGINE_MODES = [
    None,
    "duckdb.BinderException",
    "duckdb.CatalogException",
    "duckdb.ConnectionException",
    "duckdb.TransactionException:cannot rollback - no transaction is active",
    "duckdb.TransactionException:cannot commit - no transaction is active",
    "duckdb.TransactionException:other",
    "duckdb.ParserException",
]


class ExecHooks(Hooks):
    def __init__(self, mode: str | None, intercept_checks: bool = True):
        self.mode = mode
        self.calls: list[tuple] = []  # (sql Val, params, site)
        self.raised = False
        self.intercept_checks = intercept_checks

    def engine(self, I: Interp, obj, method, args, kwargs, site):
        I.effect("engine", method, args, kwargs, site)
        if method == "execute":
            idx = len(self.calls)
            self.calls.append((args[0] if args else Const(""), args[1] if len(args) > 1 else kwargs.get("parameters"), site))
            if idx == 0 and self.mode and not self.raised:
                self.raised = True
                cls, _, msg = self.mode.partition(":")
                exc = ExcV(cls, {}, [Const(f"TransactionContext Error: {msg}" if msg else "engine error text")])
                exc.strval = msg
                I.effect("engine-raises", cls, msg, site)
                raise _Raise(exc)
            return obj
        if method == "fetchall":
            return Seq_rows(I, site, len(self.calls))
        if method == "fetch_arrow_table":
            return Obj(f"arrow#{len(self.calls)}", kind="arrow", num_rows=Sym(f"num_rows#{len(self.calls)}", typ="int", notnone=True),
                       of_call=Const(len(self.calls) - 1))
        return Sym(f"duck.{method}()@{I.siteid(site)}", origin=("engine", method))

    def external(self, I, d, args, kwargs, site):
        if d == "builtins.str" and args and isinstance(args[0], ExcV):
            m = getattr(args[0], "strval", None)
            return Const(f"TransactionContext Error: {m}") if m is not None else Sym("str(exc)", typ="str")
        if d == "os.environ.get":
            return Const(None)
        return NotImplemented


def Seq_rows(I, site, ncall):
    # rows of the last engine statement: [(count,)]
    cnt = Sym(f"engine_count#{ncall}", typ="int", origin=("engine_count", ncall), notnone=True)
    return Lst([Tup([cnt])], open=True)


_PROG = None


def set_prog(prog) -> None:
    global _PROG
    _PROG = prog


def R():
    """attribute names by role (see roles.py) for the program under analysis"""
    from .roles import roles
    from .model import Program
    return roles(_PROG if _PROG is not None else Program())


def _new_variables() -> Obj:
    """the connection's Variables object as its own constructor builds it (whatever container it keeps the variables in)"""
    from .interp import Hooks as _H, Interp as _I
    from .model import Program
    prog = _PROG if _PROG is not None else Program()
    if "variables" in prog.modules and "Variables" in prog.modules["variables"].classes:
        v = _I(prog, _H(), []).construct(ClsRef("fakesnow.variables.Variables"), [], {}, None)
        if isinstance(v, Obj):
            v.name = "vars"
            return v
    return Obj("vars", cls=("variables", "Variables"), **{R().variables: Dct()})


def define_variables(conn: Obj, mapping: dict) -> None:
    """Give the session the variables of `mapping` (name -> abstract value text): written straight into the mapping when the
    Variables object keeps a dict, through its own SET handling otherwise."""
    from .interp import Hooks as _H, Interp as _I
    from .model import Program
    vars_obj = conn.attrs["variables"]
    store = vars_obj.attrs.get(R().variables)
    prog = _PROG if _PROG is not None else Program()
    sandbox = _I(prog, _H(), [])

    def set_stmt(k, val):
        col = NodeV("Column", {"this": NodeV("Identifier", {"this": Const(k), "quoted": Const(False)}, name=f"id:{k}", open=False)},
                    name=f"col:{k}", open=False)
        value = val if isinstance(val, NodeV) else lit(val.v if isinstance(val, Const) else val, False)
        return node("Set", "stmt", unset=Const(False), tag=Const(False), expressions=Lst([node("SetItem", this=node("EQ", this=col, expression=value))]))

    if isinstance(store, Dct) or store is None:
        # a plain name -> text mapping is written directly; a mapping of *records* (name -> object holding the text) is filled
        # the way SET fills it — probed on a scratch instance
        probe = _new_variables()
        try:
            sandbox.call(sandbox.getattr(probe, "update_variables"), [set_stmt("PROBE", Const("0"))], {}, None)
            pstore = probe.attrs.get(R().variables)
            records = isinstance(pstore, Dct) and any(isinstance(v_, Obj) for v_ in pstore.items.values())
        except Exception:  # noqa: BLE001
            records = False
        if not records:
            vars_obj.attrs[R().variables] = Dct(dict(mapping))
            return
    for k, val in mapping.items():
        sandbox.call(sandbox.getattr(vars_obj, "update_variables"), [set_stmt(k, val)], {}, None)


STATE_ROLES = ("table", "index", "rowcount", "last_sql", "last_params", "sqlstate", "arraysize")


def sowner(cur: Obj, role: str) -> Obj:
    """the object that holds the cursor state `role`: the cursor itself, or a holder object below it"""
    o = cur
    for a in R()["owner_path"].get(role, ()):
        nxt = o.attrs.get(a)
        if not isinstance(nxt, Obj):
            raise AnalysisError(f"cursor state holder `{a}` (for {role}) is missing on {o.name}")
        o = nxt
    return o


def sget(cur: Obj, role: str):
    return sowner(cur, role).attrs.get(R()[role])


def sset(cur: Obj, role: str, v) -> None:
    sowner(cur, role).attrs[R()[role]] = v


def sowners(cur: Obj) -> list:
    """the cursor and every holder of a piece of its state"""
    out = [cur]
    for role in STATE_ROLES:
        o = sowner(cur, role)
        if not any(o is x for x in out):
            out.append(o)
    return out


def _materialise_holders(cur: Obj) -> None:
    """when the cursor keeps its state in holder objects, create them the way the cursor's own constructor does"""
    paths = {p_ for p_ in R()["owner_path"].values() if p_}
    if not paths:
        return
    from .interp import Hooks as _H, Interp as _I
    from .model import Program
    prog = _PROG if _PROG is not None else Program()
    sandbox = _I(prog, _H(), [])
    shadow = sandbox.construct(ClsRef(f"fakesnow.{CURSOR[0]}.{CURSOR[1]}"), [cur.attrs.get(R().conn), cur.attrs.get(R().duck), cur.attrs.get(R().dict_flag)], {}, None)
    if isinstance(shadow, Obj):
        for p_ in paths:
            if p_[0] in shadow.attrs and p_[0] not in cur.attrs:
                cur.attrs[p_[0]] = shadow.attrs[p_[0]]


CTX_STATE = ("database", "schema", "database_set", "schema_set")


def _seat_session_state(conn: Obj) -> None:
    """When the connection keeps its context behind properties (a session-state object, flags folded into an enum …), put the
    abstract start state where the class keeps it: construct the backing objects as `__init__` does, then assign the four
    context values through the property setters."""
    from .interp import Hooks as _H, Interp as _I
    from .model import Program, is_property
    prog = _PROG if _PROG is not None else Program()
    m = prog.modules.get("conn")
    if m is None:
        return
    props = [a for a in (*CTX_STATE, "db_path", "nop_regexes", R().paramstyle)
             if (f_ := m.functions.get(f"FakeSnowflakeConnection.{a}")) is not None and is_property(f_)]
    if not props:
        return
    sandbox = _I(prog, _H(), [])
    values = {a: conn.attrs.pop(a) for a in props if a in conn.attrs}
    conn.lazy_done = True
    sandbox._lazy_init(conn)
    for a, v in values.items():
        setter = m.functions.get(f"FakeSnowflakeConnection.{a}.setter")
        if setter is not None:
            from .values import Func as _F
            sandbox.call_func(_F("conn", f"FakeSnowflakeConnection.{a}.setter", setter, self_val=conn), [v], {}, None)
    sandbox.refresh_properties(conn, props)


def cset(conn: Obj, name: str, value) -> None:
    """conn.<name> = value, the way a caller's assignment would do it: through the property setter when the class keeps the value
    behind one (an options record, a session-state object), else as a plain attribute."""
    from .interp import Hooks as _H, Interp as _I
    from .model import Program, is_property
    from .values import Func as _F
    prog = _PROG if _PROG is not None else Program()
    m = prog.modules.get("conn")
    fget = m.functions.get(f"FakeSnowflakeConnection.{name}") if m is not None else None
    setter = m.functions.get(f"FakeSnowflakeConnection.{name}.setter") if m is not None else None
    if fget is not None and is_property(fget) and setter is not None:
        conn.attrs.pop(name, None)
        _I(prog, _H(), []).call_func(_F("conn", f"FakeSnowflakeConnection.{name}.setter", setter, self_val=conn), [value], {}, None)
    else:
        conn.attrs[name] = value


def refresh_context(I, conn: Obj) -> None:
    """read the connection's context through its properties (when it has them) so that `conn.attrs[...]` shows what a caller sees"""
    I.refresh_properties(conn, CTX_STATE)


def make_session(database_set=None, schema_set=None, db_path=False):
    r = R()
    duck = Obj("duck", kind="duck")
    conn = Obj(
        "conn", cls=("conn", "FakeSnowflakeConnection"),
        database=Sym("CUR_DB", typ="str", truthy=True, origin=("upper", ("input", "CUR_DB")), distinct=True),
        schema=Sym("CUR_SCHEMA", typ="str", truthy=True, origin=("upper", ("input", "CUR_SCHEMA")), distinct=True),
        database_set=Const(True) if database_set is None else Const(database_set),
        schema_set=Const(True) if schema_set is None else Const(schema_set),
        db_path=Sym("DB_PATH", typ="path", truthy=True) if db_path else Const(None), nop_regexes=Const(None),
        variables=_new_variables(),
        **{r.paramstyle: Const("pyformat"), r.conn_duck: duck},
    )
    _seat_session_state(conn)
    cur = Obj("cur", cls=CURSOR, **{r.conn: conn, r.duck: duck, r.dict_flag: Const(False)})
    _materialise_holders(cur)
    for role, v in (("last_sql", Sym("old_last_sql")), ("last_params", Sym("old_last_params")), ("sqlstate", Const(None)), ("arraysize", Const(1)),
                    ("table", Sym("old_table")), ("index", Sym("old_index")), ("rowcount", Sym("old_rowcount"))):
        sset(cur, role, v)
    return duck, conn, cur


class Trace:
    def __init__(self, kind, mode, path, hooks, conn, cur, transformed, ctx_flags):
        self.kind, self.mode, self.path, self.hooks = kind, mode, path, hooks
        self.conn, self.cur, self.transformed, self.ctx_flags = conn, cur, transformed, ctx_flags

    @property
    def engine_sql(self):
        return [c[0] for c in self.hooks.calls]

    def stores(self, objname: str):
        return [(e[2], e[3], e[4]) for e in self.path.effects if e[0] == "store" and getattr(e[1], "name", None) == objname]


def run_kind(prog: Program, kind: str, mode: str | None, database_set=True, schema_set=True,
             no_db=None, no_schema=None, max_paths=256) -> list[Trace]:
    """All paths of _transform + _execute for one statement kind under one engine outcome."""
    traces: list[Trace] = []
    hooks_list: list[ExecHooks] = []
    sessions: list[tuple] = []

    def factory():
        h = ExecHooks(mode)
        hooks_list.append(h)
        return h

    def run(I: Interp):
        duck, conn, cur = make_session(database_set, schema_set, db_path=kind.endswith(" @db_path"))
        stmt = descriptor(kind)
        info = {"transformed": None, "rowcount": None}
        sessions.append((conn, cur, info))
        if prog.has_fn("checks", "is_unqualified_table_expression") and (no_db is not None):
            pass
        try:
            t = I.call(I.getattr(cur, "_transform"), [stmt], {}, None)
            info["transformed"] = t
            I.effect("transformed", t)
            r = I.call(I.getattr(cur, "_execute"), [t, Sym("params")], {}, None)
        finally:
            refresh_context(I, conn)
        try:
            info["rowcount"] = I.getattr(cur, "rowcount")
        except _Raise:
            info["rowcount"] = None
        return r

    paths = explore(prog, factory, run, max_paths=max_paths)
    for p, h, (conn, cur, info) in zip(paths, hooks_list, sessions):
        tr = Trace(kind, mode, p, h, conn, cur, info["transformed"], (database_set, schema_set))
        tr.public_rowcount = info["rowcount"]
        traces.append(tr)
    return traces


# ---------------------------------------------------------------------- execute() end to end
class FullHooks(ExecHooks):
    """execute(command, params): the Snowflake parse is replaced by a statement descriptor."""

    def __init__(self, mode, kind, undefined_var=None, nop_match=None):
        super().__init__(mode)
        self.kind = kind
        self.parsed = 0
        self.undefined_var = undefined_var  # None: explore both; False: no residual $name; True: a residual $name
        self.nop_match = nop_match  # None: explore both; True/False: the configured nop pattern matches / does not match
        self.nop_calls = []

    def obj_method(self, I, recv, name, args, kwargs, site):
        if recv.kind == "match" and name == "group":
            return Str(["$", Sym("RESIDUAL_NAME", typ="str", truthy=True)])  # the text of a reference: `$` + a name
        return NotImplemented

    def external(self, I, d, args, kwargs, site):
        if d in ("sqlglot.parse_one",) and isinstance(kwargs.get("read"), Const) and kwargs["read"].v == "snowflake":
            self.parsed += 1
            I.effect("parse-user", args[0] if args else None, site)
            self.stmt = descriptor(self.kind)
            return self.stmt
        if d == "sqlglot.parse" and isinstance(kwargs.get("read"), Const) and kwargs["read"].v == "snowflake" and I.callstack \
                and not any(f_.endswith("execute_string") for f_ in I.callstack):
            # execute() splitting its own command: one statement — written bare, or followed by a comment after the terminator
            # (`insert …; -- note`), which the pinned parser hands out as a trailing Semicolon node
            self.parsed += 1
            I.effect("parse-user", args[0] if args else None, site)
            self.stmt = descriptor(self.kind)
            if I.decide("the command ends with a comment after its terminator"):
                return Lst([self.stmt, NodeV("Semicolon", {"comments": Lst([Const(" note")])}, name="trailing_comment", open=False)])
            return Lst([self.stmt])
        if d in ("re.match", "re.search", "re.fullmatch") and self.nop_match is not None and not (I.callstack and "variables" in I.callstack[-1]):
            self.nop_calls.append((d, args, kwargs, site))
            I.effect("call", d, args, kwargs, site)
            pat = args[0] if args else None
            if isinstance(pat, Const) and pat.v == "" and d in ("re.match", "re.search"):
                return Obj("nop_match", kind="match")  # the empty pattern matches every text
            return Obj("nop_match", kind="match") if self.nop_match else Const(None)
        if d in ("re.search", "re.findall", "re.finditer") and self.undefined_var is not None and I.callstack and "variables" in I.callstack[-1]:
            I.effect("call", d, args, kwargs, site)
            if d in ("re.findall", "re.finditer"):
                return Lst([Obj("residual_match", kind="match")] if self.undefined_var else [])
            return Obj("residual_match", kind="match") if self.undefined_var else Const(None)
        return super().external(I, d, args, kwargs, site)


def run_execute(prog: Program, kind: str, mode: str | None, params=None, paramstyle="pyformat", nop_regexes=None,
                variables=None, max_paths=256, old_sqlstate="OLD", undefined_var=False, nop_match=None, entry="execute"):
    out = []
    hooks_list, sessions = [], []

    def factory():
        h = FullHooks(mode, kind, undefined_var, nop_match)
        hooks_list.append(h)
        return h

    def run(I: Interp):
        duck, conn, cur = make_session()
        cset(conn, R().paramstyle, Const(paramstyle))
        cset(conn, "nop_regexes", nop_regexes if nop_regexes is not None else Const(None))
        if variables:
            define_variables(conn, variables)
        sset(cur, "sqlstate", Const(old_sqlstate))
        sessions.append((conn, cur))
        try:
            return I.call(I.getattr(cur, entry), [Sym("COMMAND", typ="str", truthy=True), params if params is not None else Const(None)], {}, None)
        finally:
            refresh_context(I, conn)

    paths = explore(prog, factory, run, max_paths=max_paths)
    for p, h, (conn, cur) in zip(paths, hooks_list, sessions):
        tr = Trace(kind, mode, p, h, conn, cur, None, (True, True))
        out.append(tr)
    return out
