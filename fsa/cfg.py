"""E2 — event control-flow graph with typed exceptional edges.

Nodes are *events* in evaluation order: call, store, raise, return, yield, assert, branch, loop,
handler, with-enter/exit, finally entry.  Every event that may raise has exceptional edges ('x')
to the enclosing handlers / finally copies / exceptional exit.  Exceptional edges are typed: an
event carries the set of exception *families* it may raise, and a handler receives an edge only
from events whose family it can catch:

  'duckdb'   – raised by calls on the engine handle (duckdb.* exception classes)
  <dotted>   – explicit ``raise C(...)`` of a resolvable class (e.g. snowflake…ProgrammingError)
  'generic'  – anything an unresolved call may raise (never a library-specific class)
  'assert'   – AssertionError
  'genexit'  – GeneratorExit / exception thrown into a generator at ``yield``

Resolved intra-package callees are inlined (bounded depth) so that "extract method" refactorings
do not blind a path rule.  ``finally`` bodies are duplicated per continuation (normal, exceptional,
return, break/continue).  The graph is small (< 300 nodes for the largest function).
"""

from __future__ import annotations

import ast
import itertools
from collections import deque
from typing import Callable, Iterable

from .model import AnalysisError, Module, Program, norm

# builtins / stdlib callables that never raise for the purposes of path rules
PURE_CALLS = {
    "isinstance", "len", "str", "tuple", "list", "dict", "set", "bool", "int", "cast", "print", "any", "all",
    "iter", "sorted", "enumerate", "zip", "map", "min", "max", "range", "repr", "getattr", "hasattr", "id",
    "frozenset", "type",
}
PURE_METHODS = {
    "get", "upper", "lower", "startswith", "endswith", "split", "join", "strip", "items", "keys", "values",
    "append", "extend", "copy", "format", "substitute", "casefold", "replace", "add", "update", "pop",
    "chain", "rpartition", "partition", "removeprefix", "removesuffix",  # lazy constructors / total str methods
}
LIB_FAMILIES = ("duckdb.", "snowflake.")
LOG_METHODS = {"debug", "info", "warning", "error", "exception", "critical", "log"}


class Node:
    _ids = itertools.count()

    __slots__ = ("id", "kind", "label", "ast", "succ", "pred", "raises", "depth", "fn", "cond")

    def __init__(self, kind: str, label: str, astn: ast.AST | None = None, fn: str = "", depth: int = 0):
        self.id = next(Node._ids)
        self.kind = kind
        self.label = label
        self.ast = astn
        self.succ: list[tuple[Node, str]] = []  # (node, 'n'|'x'|'T'|'F')
        self.pred: list[tuple[Node, str]] = []
        self.raises: set[str] = set()
        self.depth = depth
        self.fn = fn  # qualified name of the function whose body the event belongs to
        self.cond = None

    @property
    def line(self) -> int:
        return getattr(self.ast, "lineno", 0)

    def __repr__(self) -> str:
        return f"{self.kind}:{self.label}@{self.fn}:{self.line}"


class _Frame:
    """Continuation context for the builder."""

    def __init__(self, handlers, finallies, loops, ret):
        self.handlers = handlers  # list[(catch_pred, node)] innermost first … plus terminal
        self.finallies = finallies
        self.loops = loops
        self.ret = ret


class CFG:
    def __init__(
        self,
        prog: Program,
        mod: str,
        qual: str,
        inline_depth: int = 3,
        engine_pred: Callable[[ast.Call, Module], bool] | None = None,
        pure_pred: Callable[[ast.Call], bool] | None = None,
    ):
        self.pure_pred = pure_pred
        self.prog = prog
        home = prog.locate(mod, qual)  # the function may live in a sibling module that `mod` re-exports
        if home is not None and home != (mod, qual):
            mod, qual = home
        self.mod = prog.mod(mod)
        self.qual = qual
        self.inline_depth = inline_depth
        self.engine_pred = engine_pred or default_engine_pred
        fn = prog.fn(mod, qual)
        self.entry = Node("entry", qual, fn, f"{mod}.{qual}")
        self.exit = Node("exit", "normal", fn, f"{mod}.{qual}")
        self.xexit = Node("xexit", "exceptional", fn, f"{mod}.{qual}")
        self.nodes: list[Node] = [self.entry, self.exit, self.xexit]
        # handler stack: each level is a list of (types|None, node); exceptions propagate outward
        self._hstack: list[list[tuple[list[str] | None, Node]]] = []
        self._terminal_x: list[Node] = [self.xexit]
        self._fin: list[tuple[list[ast.stmt], int]] = []  # (finalbody, hstack depth at try)
        self._loops: list[tuple[Node, list[Node], int]] = []  # (head, breaks, fin depth)
        self._ret: list[tuple[Node, int]] = [(self.exit, 0)]  # (target, fin depth)
        self._ctx: list[tuple[Module, str, int]] = [(self.mod, f"{mod}.{qual}", 0)]
        self._inlining: list[str] = [f"{mod}.{qual}"]
        outs = self._block(fn.body, [self.entry])
        for o in outs:
            self._edge(o, self.exit)
        for n in self.nodes:
            for s, k in n.succ:
                s.pred.append((n, k))

    # ------------------------------------------------------------------ helpers
    @property
    def _m(self) -> Module:
        return self._ctx[-1][0]

    def _new(self, kind: str, label: str, astn: ast.AST | None = None) -> Node:
        n = Node(kind, label, astn, self._ctx[-1][1], self._ctx[-1][2])
        self.nodes.append(n)
        return n

    @staticmethod
    def _edge(a: Node, b: Node, k: str = "n") -> None:
        if (b, k) not in a.succ:
            a.succ.append((b, k))

    def _link(self, preds: Iterable[Node], n: Node) -> list[Node]:
        for p in preds:
            k = "n"
            if p.kind == "branch" and p.cond is not None:
                k = p.cond
            self._edge(p, n, k)
        return [n]

    def _raise_edges(self, n: Node, families: set[str], upto: int = 0) -> None:
        """Connect n to every handler that may catch one of the families; what is not caught by a
        catch-all propagates outward."""
        n.raises |= families
        remaining = set(families)
        for level in reversed(self._hstack[upto:]):
            for types, hnode in level:
                caught = {f for f in remaining if _catches(types, f)}
                if caught:
                    self._edge(n, hnode, "x")
                    # a catch-all / exact match removes the family; a subclass-possible match keeps it
                    remaining -= {f for f in caught if _catches_all(types, f)}
            if not remaining:
                return
        if remaining:
            for t in self._terminal_x:
                self._edge(n, t, "x")

    # ------------------------------------------------------------------ classification
    def _call_families(self, call: ast.Call) -> set[str]:
        f = call.func
        if self.pure_pred is not None and self.pure_pred(call):
            return set()
        if self.engine_pred(call, self._m):
            return {"duckdb"}
        name = None
        if isinstance(f, ast.Name):
            name = f.id
            if name in PURE_CALLS:
                return set()
        if isinstance(f, ast.Attribute) and f.attr in PURE_METHODS:
            return set()
        if isinstance(f, ast.Attribute) and f.attr in ("ExitStack", "closing", "suppress", "nullcontext"):
            return set()  # stdlib constructor that cannot fail
        if isinstance(f, ast.Attribute) and f.attr in LOG_METHODS:
            # the logging module swallows errors of handlers and formatting (logging.raiseExceptions only prints them)
            d = self.prog.dotted(self._m, f) or ""
            recv = f.value
            bound = self._m.consts.get(recv.id) if isinstance(recv, ast.Name) else None
            if d.startswith("logging.") or (isinstance(bound, ast.Call) and (self.prog.dotted(self._m, bound.func) or "") == "logging.getLogger"):
                return set()
        return {"generic"}

    def _resolve_callee(self, call: ast.Call) -> tuple[str, str] | None:
        """(module, qualname) of an intra-package callee, or None."""
        f = call.func
        m = self._m
        owner = self._ctx[-1][1].split(".", 1)[1] if "." in self._ctx[-1][1] else ""
        cls = owner.split(".")[0] if "." in owner else None
        if isinstance(f, ast.Attribute) and isinstance(f.value, ast.Name) and f.value.id in ("self", "cls") and cls:
            q = f"{cls}.{f.attr}"
            if m.functions.own(q):
                return m.name, q
            return None
        if isinstance(f, ast.Name) and m.functions.own(f.id):
            return m.name, f.id
        d = self.prog.dotted(m, f)
        if d:
            r = self.prog.resolve(d)
            if r and r[1] in self.prog.modules[r[0]].functions:
                return r
        if isinstance(f, ast.Attribute) and not self.engine_pred(call, m):
            # receiver of unknown type: resolve by method name when exactly one class of the package defines it
            cands = [(mn, q) for mn, mm in self.prog.modules.items() for q in mm.functions
                     if "." in q and q.split(".")[-1] == f.attr and not q.endswith(".setter")]
            if len(cands) == 1 and f.attr not in PURE_METHODS:
                return cands[0]
        return None

    # ------------------------------------------------------------------ expressions
    def _expr(self, e: ast.AST | None, preds: list[Node]) -> list[Node]:
        if e is None:
            return preds
        if isinstance(e, ast.BoolOp):
            outs: list[Node] = []
            cur = preds
            for i, v in enumerate(e.values):
                cur = self._expr(v, cur)
                if i < len(e.values) - 1:
                    b = self._new("sc", "and" if isinstance(e.op, ast.And) else "or", v)
                    self._link(cur, b)
                    outs.append(b)
                    cur = [b]
            return outs + cur
        if isinstance(e, ast.IfExp):
            c = self._expr(e.test, preds)
            return self._expr(e.body, c) + self._expr(e.orelse, c)
        if isinstance(e, ast.NamedExpr):
            cur = self._expr(e.value, preds)
            n = self._new("store", norm(e.target), e)
            return self._link(cur, n)
        if isinstance(e, ast.Lambda):
            return preds
        if isinstance(e, (ast.GeneratorExp, ast.ListComp, ast.SetComp, ast.DictComp)):
            cur = preds
            for g in e.generators:
                cur = self._expr(g.iter, cur)
            head = self._new("loop", "comprehension", e)
            self._link(cur, head)
            body = [head]
            for g in e.generators:
                for c in g.ifs:
                    body = self._expr(c, body)
            if isinstance(e, ast.DictComp):
                body = self._expr(e.key, body)
                body = self._expr(e.value, body)
            else:
                body = self._expr(e.elt, body)
            for p in body:
                self._edge(p, head)
            return [head]
        if isinstance(e, (ast.Yield, ast.YieldFrom)):
            cur = self._expr(e.value, preds)
            n = self._new("yield", "yield", e)
            self._link(cur, n)
            self._raise_edges(n, {"genexit", "generic"})
            return [n]
        if isinstance(e, ast.Await):
            return self._expr(e.value, preds)
        if isinstance(e, ast.Call):
            cur = preds
            if isinstance(e.func, ast.Attribute):
                cur = self._expr(e.func.value, cur)
            elif not isinstance(e.func, ast.Name):
                cur = self._expr(e.func, cur)
            for a in e.args:
                cur = self._expr(a.value if isinstance(a, ast.Starred) else a, cur)
            for k in e.keywords:
                cur = self._expr(k.value, cur)
            n = self._new("call", norm(e.func), e)
            self._link(cur, n)
            callee = self._resolve_callee(e)
            if (
                callee
                and len(self._ctx) <= self.inline_depth
                and f"{callee[0]}.{callee[1]}" not in self._inlining
                and not isinstance(self.prog.modules[callee[0]].functions[callee[1]], ast.AsyncFunctionDef)
                and not _is_generator(self.prog.modules[callee[0]].functions[callee[1]])
            ):
                return self._inline(n, callee)
            self._raise_edges(n, self._call_families(e))
            return [n]
        cur = preds
        for ch in ast.iter_child_nodes(e):
            if isinstance(ch, ast.expr):
                cur = self._expr(ch, cur)
        return cur

    def _inline(self, callnode: Node, callee: tuple[str, str]) -> list[Node]:
        cm = self.prog.modules[callee[0]]
        fn = cm.functions[callee[1]]
        ret = self._new("inl_ret", callee[1], callnode.ast)
        self._ctx.append((cm, f"{callee[0]}.{callee[1]}", len(self._ctx)))
        self._inlining.append(f"{callee[0]}.{callee[1]}")
        saved = (self._fin, self._loops, self._ret)
        self._fin, self._loops = [], []
        self._ret = [(ret, 0)]
        # exceptions inside the callee propagate to the caller's handler stack (kept as is)
        outs = self._block(fn.body, [callnode])
        self._fin, self._loops, self._ret = saved
        self._inlining.pop()
        self._ctx.pop()
        self._link(outs, ret)
        return [ret]

    # ------------------------------------------------------------------ statements
    def _stores(self, targets: list[ast.expr], preds: list[Node], astn: ast.AST) -> list[Node]:
        cur = preds
        for t in targets:
            subs = t.elts if isinstance(t, (ast.Tuple, ast.List)) else [t]
            for sub in subs:
                if isinstance(sub, ast.Subscript):
                    cur = self._expr(sub.value, cur)
                    cur = self._expr(sub.slice, cur)
                elif isinstance(sub, ast.Attribute):
                    cur = self._expr(sub.value, cur)
                n = self._new("store", norm(sub), astn)
                cur = self._link(cur, n)
        return cur

    def _block(self, stmts: list[ast.stmt], preds: list[Node]) -> list[Node]:
        cur = preds
        for s in stmts:
            cur = self._stmt(s, cur)
        return cur

    def _run_finallies(self, preds: list[Node], down_to: int) -> list[Node]:
        """Emit copies of the pending finally bodies (innermost first) for a jump that leaves them."""
        cur = preds
        pending = self._fin[down_to:]
        for i in range(len(pending) - 1, -1, -1):
            body, hdepth = pending[i]
            saved_h, saved_f = self._hstack, self._fin
            self._hstack = self._hstack[:hdepth]
            self._fin = self._fin[: down_to + i]
            f = self._new("finally", "jump-copy", body[0])
            cur = self._block(body, self._link(cur, f))
            self._hstack, self._fin = saved_h, saved_f
        return cur

    def _stmt(self, s: ast.stmt, preds: list[Node]) -> list[Node]:
        if not preds:
            return []  # unreachable code
        if isinstance(s, ast.Expr):
            return self._expr(s.value, preds)
        if isinstance(s, ast.Assign):
            return self._stores(s.targets, self._expr(s.value, preds), s)
        if isinstance(s, ast.AnnAssign):
            if s.value is None:
                return preds
            return self._stores([s.target], self._expr(s.value, preds), s)
        if isinstance(s, ast.AugAssign):
            return self._stores([s.target], self._expr(s.value, preds), s)
        if isinstance(s, ast.Return):
            cur = self._expr(s.value, preds)
            n = self._new("return", "return", s)
            cur = self._link(cur, n)
            target, fdepth = self._ret[-1]
            cur = self._run_finallies(cur, fdepth)
            for p in cur:
                self._edge(p, target)
            return []
        if isinstance(s, ast.Raise):
            cur = self._expr(s.exc, preds)
            n = self._new("raise", norm(s.exc) if s.exc else "reraise", s)
            self._link(cur, n)
            fam = self._raise_family(s)
            self._raise_edges(n, fam)
            return []
        if isinstance(s, ast.Assert):
            cur = self._expr(s.test, preds)
            n = self._new("assert", norm(s.test)[:60], s)
            self._link(cur, n)
            self._raise_edges(n, {"assert"})
            return [n]
        if isinstance(s, ast.If):
            c = self._expr(s.test, preds)
            bt = self._new("branch", norm(s.test)[:80], s)
            bt.cond = "T"
            bf = self._new("branch", norm(s.test)[:80], s)
            bf.cond = "F"
            self._link(c, bt)
            self._link(c, bf)
            t = self._block(s.body, [bt])
            f = self._block(s.orelse, [bf]) if s.orelse else [bf]
            return t + f
        if isinstance(s, ast.Match):
            c = self._expr(s.subject, preds)
            outs, fall = [], c
            for case in s.cases:
                b = self._new("branch", ("case " + norm(case.pattern))[:80], case.pattern)
                b.cond = "T"
                self._link(fall, b)
                g = self._expr(case.guard, [b]) if case.guard is not None else [b]
                outs += self._block(case.body, g)
                nf = self._new("branch", ("not case " + norm(case.pattern))[:80], case.pattern)
                nf.cond = "F"
                self._link(fall, nf)
                if case.guard is not None:
                    self._link(g, nf)
                fall = [nf]
            return outs + fall
        if isinstance(s, (ast.For, ast.AsyncFor, ast.While)):
            if isinstance(s, ast.While):
                head = self._new("loop", norm(s.test)[:60], s)
                self._link(preds, head)
                c = self._expr(s.test, [head])
                entry_body = c
            else:
                c = self._expr(s.iter, preds)
                head = self._new("loop", norm(s.iter)[:60], s)
                self._link(c, head)
                self._raise_edges(head, {"generic"} if not _pure_iter(s.iter) else set())
                entry_body = self._stores([s.target], [head], s)
            self._loops.append((head, [], len(self._fin)))
            body = self._block(s.body, entry_body)
            for p in body:
                self._edge(p, head)
            _, breaks, _ = self._loops.pop()
            exits = list(c) if isinstance(s, ast.While) else [head]
            if isinstance(s, ast.While) and isinstance(s.test, ast.Constant) and s.test.value:
                exits = []
            out = exits
            if s.orelse:
                out = self._block(s.orelse, exits)
            return out + breaks
        if isinstance(s, ast.Break):
            head, breaks, fdepth = self._loops[-1]
            breaks.extend(self._run_finallies(preds, fdepth))
            return []
        if isinstance(s, ast.Continue):
            head, breaks, fdepth = self._loops[-1]
            for p in self._run_finallies(preds, fdepth):
                self._edge(p, head)
            return []
        if isinstance(s, (ast.With, ast.AsyncWith)):
            cur = preds
            for it in s.items:
                cur = self._expr(it.context_expr, cur)
                n = self._new("with_enter", norm(it.context_expr)[:60], it.context_expr)
                self._link(cur, n)
                fam = {"generic"}
                if isinstance(it.context_expr, ast.Call) and not self._call_families(it.context_expr):
                    fam = set()  # entering a freshly built stdlib context manager that cannot fail (ExitStack())
                self._raise_edges(n, fam)
                cur = [n]
                if it.optional_vars is not None:
                    cur = self._stores([it.optional_vars], cur, s)
            # the exit runs on exceptions too; model as a finally with one event
            wx = self._new("with_exit", "exc", s)
            self._hstack.append([(None, wx)])
            depth = len(self._hstack) - 1
            body = self._block(s.body, cur)
            self._hstack.pop()
            self._raise_edges_from_handler(wx, depth)
            wn = self._new("with_exit", "normal", s)
            self._link(body, wn)
            return [wn]
        if isinstance(s, ast.Try):
            return self._try(s, preds)
        if isinstance(s, (ast.Pass, ast.Import, ast.ImportFrom, ast.Global, ast.Nonlocal)):
            return preds
        if isinstance(s, (ast.FunctionDef, ast.AsyncFunctionDef, ast.ClassDef)):
            return preds
        if isinstance(s, ast.Delete):
            return preds
        if isinstance(s, ast.Match):
            cur = self._expr(s.subject, preds)
            outs: list[Node] = []
            for case in s.cases:
                b = self._new("branch", "case " + norm(case.pattern)[:40], case)
                self._link(cur, b)
                outs += self._block(case.body, [b])
            return outs + cur
        raise AnalysisError(f"cfg: unsupported statement {type(s).__name__} in {self._ctx[-1][1]}")

    def _raise_edges_from_handler(self, n: Node, depth: int) -> None:
        """n re-propagates whatever reached it to the handlers outside level `depth`."""
        fams = {"generic", "duckdb", "assert", "genexit", "*"}
        saved = self._hstack
        self._hstack = self._hstack[:depth]
        self._raise_edges(n, fams)
        self._hstack = saved

    def _raise_family(self, s: ast.Raise) -> set[str]:
        if s.exc is None:
            return {"*"}
        exc = s.exc.func if isinstance(s.exc, ast.Call) else s.exc
        d = self.prog.dotted(self._m, exc)
        if d:
            return {d}
        if isinstance(exc, ast.Name):
            # a locally defined / builtin exception class, or re-raise of the bound handler variable
            if exc.id in self._m.classes:
                return {f"fakesnow.{self._m.name}.{exc.id}"}
            if exc.id[:1].isupper():
                return {"builtins." + exc.id}
            return {"*"}
        return {"generic"}

    def _try(self, s: ast.Try, preds: list[Node]) -> list[Node]:
        outer_depth = len(self._hstack)
        fin_x: Node | None = None
        if s.finalbody:
            # exceptional copy of the finally body: runs, then propagates outward
            fin_x = self._new("finally", "exc-copy", s.finalbody[0])
            fx = self._block(s.finalbody, [fin_x])
            for p in fx:
                self._raise_edges_from_handler(p, outer_depth)
            self._fin.append((s.finalbody, outer_depth))
        level: list[tuple[list[str] | None, Node]] = []
        hnodes: list[tuple[ast.ExceptHandler, Node]] = []
        for h in s.handlers:
            types = _handler_types(self.prog, self._m, h)
            hn = self._new("handler", (", ".join(types) if types and isinstance(h.type, ast.Call) else norm(h.type)) if h.type else "bare", h)
            level.append((types, hn))
            hnodes.append((h, hn))
        if fin_x is not None:
            self._hstack.append([(None, fin_x)])
        self._hstack.append(level)
        body = self._block(s.body, preds)
        self._hstack.pop()
        if s.orelse:
            body = self._block(s.orelse, body)
        outs = list(body)
        for h, hn in hnodes:
            outs += self._block(h.body, [hn])
        if fin_x is not None:
            self._hstack.pop()
        if s.finalbody:
            self._fin.pop()
            fn_ = self._new("finally", "normal-copy", s.finalbody[0])
            outs = self._block(s.finalbody, self._link(outs, fn_))
        return outs

    # ------------------------------------------------------------------ queries
    def find(self, pred: Callable[[Node], bool]) -> list[Node]:
        return [n for n in self.nodes if pred(n)]

    def calls(self, pred: Callable[[ast.Call, Node], bool]) -> list[Node]:
        return [n for n in self.nodes if n.kind == "call" and isinstance(n.ast, ast.Call) and pred(n.ast, n)]

    def reachable(self, start: Node | None = None, edge_ok=lambda k: True) -> set[int]:
        start = start or self.entry
        seen = {start.id}
        q = deque([start])
        while q:
            n = q.popleft()
            for m, k in n.succ:
                if edge_ok(k) and m.id not in seen:
                    seen.add(m.id)
                    q.append(m)
        return seen

    def path_avoiding(
        self,
        starts: Iterable[tuple[Node, str | None]] | Node,
        goal: Callable[[Node], bool],
        avoid: Callable[[Node], bool],
        first_edge: Callable[[str], bool] | None = None,
        edge_ok: Callable[[str], bool] = lambda k: True,
    ) -> list[Node] | None:
        """Shortest path from start to a goal node that never passes an `avoid` node (after start)."""
        if isinstance(starts, Node):
            starts = [(starts, None)]
        q: deque[tuple[Node, list[Node]]] = deque()
        seen: set[int] = set()
        for st, _ in starts:
            for m, k in st.succ:
                if first_edge is not None and not first_edge(k):
                    continue
                if not edge_ok(k) and first_edge is None:
                    continue
                if avoid(m):
                    continue
                if goal(m):
                    return [st, m]
                if m.id not in seen:
                    seen.add(m.id)
                    q.append((m, [st, m]))
        while q:
            n, path = q.popleft()
            for m, k in n.succ:
                if not edge_ok(k) or m.id in seen or avoid(m):
                    continue
                if goal(m):
                    return [*path, m]
                seen.add(m.id)
                q.append((m, [*path, m]))
        return None

    def dominators(self, edge_ok: Callable[[str], bool] = lambda k: True) -> dict[int, set[int]]:
        reach = self.reachable(edge_ok=edge_ok)
        nodes = [n for n in self.nodes if n.id in reach]
        allids = {n.id for n in nodes}
        dom = {n.id: set(allids) for n in nodes}
        dom[self.entry.id] = {self.entry.id}
        changed = True
        while changed:
            changed = False
            for n in nodes:
                if n is self.entry:
                    continue
                ps = [p for p, k in n.pred if p.id in reach and edge_ok(k)]
                if not ps:
                    continue
                new = set.intersection(*(dom[p.id] for p in ps)) | {n.id}
                if new != dom[n.id]:
                    dom[n.id] = new
                    changed = True
        return dom

    def fmt_path(self, path: list[Node]) -> str:
        return " -> ".join(f"{n.kind}:{n.label}@{n.line}" for n in path if n.kind not in ("sc", "inl_ret"))


def _is_generator(fn: ast.AST) -> bool:
    for n in ast.walk(fn):
        if isinstance(n, (ast.Yield, ast.YieldFrom)):
            return True
    return False


def _pure_iter(e: ast.expr) -> bool:
    return isinstance(e, (ast.Name, ast.Attribute, ast.Tuple, ast.List, ast.BinOp, ast.Constant, ast.Subscript)) or (
        isinstance(e, ast.Call) and isinstance(e.func, ast.Name) and e.func.id in PURE_CALLS
    )


def _handler_types(prog: Program, m: Module, h: ast.ExceptHandler) -> list[str] | None:
    if h.type is None:
        return None
    ht = h.type
    # `except tuple(TABLE)` / `except TABLE` with a module-level table of exception classes (a dict's keys, a tuple / list)
    inner = ht.args[0] if isinstance(ht, ast.Call) and isinstance(ht.func, ast.Name) and ht.func.id in ("tuple", "list") and len(ht.args) == 1 else ht
    if isinstance(inner, ast.Name) and inner.id in m.consts:
        tbl = m.consts[inner.id]
        elts = tbl.keys if isinstance(tbl, ast.Dict) else tbl.elts if isinstance(tbl, (ast.Tuple, ast.List, ast.Set)) else None
        if elts and all(e is not None for e in elts):
            ht = ast.Tuple(elts=list(elts), ctx=ast.Load())
    ts = ht.elts if isinstance(ht, ast.Tuple) else [ht]
    out = []
    for t in ts:
        d = prog.dotted(m, t)
        if d is None and isinstance(t, ast.Name):
            d = f"fakesnow.{m.name}.{t.id}" if t.id in m.classes else "builtins." + t.id
        out.append(d or norm(t))
    return out


_GENERIC_BASES = {"builtins.Exception", "builtins.BaseException"}
# exception classes whose subclasses matter for matching (read from snowflake.connector.errors)
_SF_SUB = {
    "snowflake.connector.errors.ProgrammingError": {"snowflake.connector.errors.DatabaseError",
                                                     "snowflake.connector.errors.Error"},
    "snowflake.connector.errors.DatabaseError": {"snowflake.connector.errors.Error"},
    "snowflake.connector.errors.NotSupportedError": {"snowflake.connector.errors.DatabaseError",
                                                      "snowflake.connector.errors.Error"},
}


def _catches(types: list[str] | None, fam: str) -> bool:
    """May a handler with these types catch an exception of this family?"""
    if types is None:
        return True
    for t in types:
        if t in _GENERIC_BASES:
            if fam == "genexit" and t == "builtins.Exception":
                continue
            return True
        if fam == "*":
            return True  # re-raise of an unknown exception: may be anything
        if fam == "duckdb" and t.startswith("duckdb."):
            return True
        if fam == "assert" and t == "builtins.AssertionError":
            return True
        if fam == t or t in _SF_SUB.get(fam, ()):
            return True
        if fam == "generic" and not t.startswith(LIB_FAMILIES) and t.startswith("builtins."):
            return True
    return False


def _catches_all(types: list[str] | None, fam: str) -> bool:
    """Does the handler definitely catch every exception of this family?"""
    if types is None:
        return True
    for t in types:
        if t == "builtins.BaseException":
            return True
        if t == "builtins.Exception" and fam != "genexit" and fam != "*":
            return True
        if fam == t or t in _SF_SUB.get(fam, ()):
            return True
    return False


def default_engine_pred(call: ast.Call, m: Module) -> bool:
    """A call on a DuckDB handle: receiver path ends in a name containing 'duck_conn' / 'duck'."""
    f = call.func
    if not isinstance(f, ast.Attribute):
        return False
    if f.attr.startswith("__"):
        return False
    recv = f.value
    # chained: duck_conn.execute(...).fetchone()
    while isinstance(recv, ast.Call) and isinstance(recv.func, ast.Attribute):
        recv = recv.func.value
    name = recv.attr if isinstance(recv, ast.Attribute) else recv.id if isinstance(recv, ast.Name) else ""
    return "duck" in name and not name.startswith("duckdb") and name not in m.consts  # (duckdb_to_sf_type is a table, `duckdb` the module)
