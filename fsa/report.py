"""Check context: obligations, findings, known findings, evidence, exit codes."""

from __future__ import annotations

import hashlib
import json
import os
import time
from pathlib import Path

from .model import AnalysisError, Program, norm

VERIF = Path(__file__).resolve().parent.parent
KNOWN = VERIF / "known_findings.json"
EVID = VERIF / "evidence"


class Finding:
    def __init__(self, prop, rule, mod, fn, construct, loc, msg, witness=None, fid=None):
        self.prop, self.rule, self.mod, self.fn = prop, rule, mod, fn
        self.construct = norm(construct) if not isinstance(construct, str) else " ".join(construct.split())
        self.loc, self.msg, self.witness, self.fid = loc, msg, witness, fid

    @property
    def key(self) -> str:
        return f"{self.rule}|{self.mod}|{self.fn}|{self.construct}"

    def as_dict(self):
        return {"property": self.prop, "rule": self.rule, "module": self.mod, "function": self.fn,
                "construct": self.construct, "location": self.loc, "message": self.msg, "witness": self.witness,
                "key": self.key}


class Ctx:
    def __init__(self, prop: str, tier: str, prog: Program, seed: int = 0):
        self.prop, self.tier, self.prog, self.seed = prop, tier, prog, seed
        self.obligations: list[dict] = []
        self.findings: list[Finding] = []
        self.notes: list[str] = []
        self.inventory: dict[str, int] = {}
        self.functions: set[str] = set()
        self.rules_run: list[str] = []
        self.assumptions: list[str] = []
        self.extra: dict = {}
        self.exhaustive = None
        self.errors: list[str] = []

    # -- bookkeeping
    def analysed(self, *fns: str) -> None:
        self.functions.update(fns)

    def ob(self, rule: str, what: str, ok: bool | None, loc: str = "", detail: str = "") -> None:
        """Record one evaluated obligation (ok=None: unclassified, listed but never raised)."""
        self.obligations.append({"rule": rule, "what": what, "verdict": {True: "holds", False: "VIOLATED", None: "unclassified"}[ok],
                                 "loc": loc, **({"detail": detail} if detail else {})})

    def violation(self, rule, mod, fn, construct, loc, msg, witness=None) -> Finding:
        f = Finding(self.prop, rule, mod, fn, construct, loc, msg, witness)
        if f.key not in {x.key for x in self.findings}:
            self.findings.append(f)
        return f

    def floor(self, name: str, count: int, minimum: int) -> None:
        self.inventory[name] = count
        if count < minimum:
            raise AnalysisError(f"inventory `{name}` = {count} below the floor {minimum} confirmed by hand "
                                f"(a rule that matches too few sites must not pass silently)")

    def note(self, s: str) -> None:
        self.notes.append(s)


def load_known() -> dict:
    if KNOWN.exists():
        return json.loads(KNOWN.read_text())
    return {"known": [], "fixed": []}


def finish(ctx: Ctx, t0: float, explanation: str, rule_text: str, trusted: list[str]) -> int:
    known = load_known()
    known_keys = {(k["property"], k["key"]): k for k in known.get("known", [])}
    new, listed = [], []
    for f in ctx.findings:
        k = known_keys.get((ctx.prop, f.key))
        if k:
            f.fid = k.get("id")
            listed.append(f)
        else:
            new.append(f)
    for f in listed:
        print(f"KNOWN-FINDING: property={ctx.prop} {f.fid or ''} {f.rule} {f.loc} `{f.construct[:100]}` — {f.msg}")
    vdir = EVID / "violations"
    for f in new:
        vdir.mkdir(parents=True, exist_ok=True)
        h = hashlib.sha256(f.key.encode()).hexdigest()[:10]
        path = vdir / f"{ctx.prop}-{h}.json"
        path.write_text(json.dumps(f.as_dict(), indent=1, default=str))
        print(f"VIOLATION property={ctx.prop} replay={path}")
        print(f"  {f.loc}  rule {f.rule}  in {f.mod}.{f.fn}: `{f.construct[:160]}`")
        print(f"  {f.msg}")
        if f.witness:
            print(f"  witness: {f.witness}")
    distinct = len({(o["rule"], o["what"], o["loc"]) for o in ctx.obligations if o["verdict"] != "unclassified"})
    samples = _samples(ctx)
    ev = {
        "property_id": ctx.prop,
        "tier": ctx.tier,
        "seed": ctx.seed,
        "level": "other",
        "coverage": {
            "explanation": explanation,
            "evaluations": max(len(ctx.obligations), 1),
            "distinct_nontrivial": distinct,
            "rule": rule_text,
            "samples": samples,
            "rules_run": ctx.rules_run,
            "functions_analysed": sorted(ctx.functions),
            "inventory": ctx.inventory,
            "obligations_by_verdict": _count(ctx),
            "unclassified": [o for o in ctx.obligations if o["verdict"] == "unclassified"][:40],
            "known_findings": [f.as_dict() for f in listed],
            "new_violations": [f.as_dict() for f in new],
            "notes": ctx.notes[:60],
            "analysis_errors": ctx.errors,
            "trusted_base": trusted,
            "source_digest": ctx.prog.digest(),
            **({"exhaustive": ctx.exhaustive} if ctx.exhaustive is not None else {}),
            **ctx.extra,
        },
        "assumptions": ctx.assumptions or trusted,
        "wall_s": round(time.time() - t0, 3),
        "violations": len(new),
    }
    EVID.mkdir(exist_ok=True)
    (EVID / f"{ctx.prop}.json").write_text(json.dumps(ev, indent=1, default=str) + "\n")
    for e in ctx.errors:
        print(f"ANALYSIS-ERROR property={ctx.prop} {e}")
    print(f"[{ctx.prop}] tier={ctx.tier} rules={len(ctx.rules_run)} obligations={len(ctx.obligations)} "
          f"{_count(ctx)} functions={len(ctx.functions)} known={len(listed)} new={len(new)} errors={len(ctx.errors)} wall={ev['wall_s']}s")
    return 1 if new else 2 if ctx.errors else 0


def _count(ctx: Ctx) -> dict:
    out: dict[str, int] = {}
    for o in ctx.obligations:
        out[o["verdict"]] = out.get(o["verdict"], 0) + 1
    return out


def _samples(ctx: Ctx) -> list:
    # one or two obligations per rule, violated ones first
    by_rule: dict[str, list] = {}
    for o in sorted(ctx.obligations, key=lambda o: o["verdict"] != "VIOLATED"):
        by_rule.setdefault(o["rule"], [])
        if len(by_rule[o["rule"]]) < 3:
            by_rule[o["rule"]].append(o)
    out = [o for v in by_rule.values() for o in v]
    return out or [{"rule": "none", "what": "no obligation evaluated"}]


def seed_from_env() -> int:
    try:
        return int(os.environ.get("VERIF_SEED", "0"))
    except ValueError:
        return 0
